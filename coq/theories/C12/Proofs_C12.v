From Coq Require Import List NArith Bool Arith Lia.
From Verif Require Import C11.Model_C11 C11.Proofs_C11.
Import ListNotations.

(* ------------------------------------------------------------------ *)
(* G: after a stop request at most one more request per worker          *)
(* ------------------------------------------------------------------ *)
Definition is_send (w : wpc) : bool := match w with WSend _ _ _ _ => true | _ => false end.
Definition count_send (ws : list wpc) : nat := length (filter is_send ws).
Definition b2n (b : bool) : nat := if b then 1 else 0.

Lemma count_send_le ws : count_send ws <= length ws.
Proof. unfold count_send. induction ws as [|w ws IH]; cbn; auto. destruct (is_send w); cbn; lia. Qed.

Lemma count_send_upd i w w' ws : nth_error ws i = Some w ->
  count_send (upd i w' ws) + b2n (is_send w) = count_send ws + b2n (is_send w').
Proof.
  unfold count_send. revert i. induction ws as [|y ws IH]; intros [|i] H; cbn in *; try discriminate.
  - inversion H; subst. destruct (is_send w), (is_send w'); cbn; lia.
  - specialize (IH _ H). destruct (is_send y); cbn; lia.
Qed.

Definition invG (s : state) : Prop :=
  (has_to_stop s = false -> sends_after_stop s = 0) /\
  (has_to_stop s = true -> sends_after_stop s + count_send (workers s) <= length (workers s)).

Lemma invG_of_zero s : sends_after_stop s = 0 -> invG s.
Proof. intros H. split; auto. intros _. rewrite H. apply count_send_le. Qed.

Lemma invG_keep s s' : has_to_stop s = true -> invG s ->
  has_to_stop s' = true -> sends_after_stop s' + count_send (workers s') <= sends_after_stop s + count_send (workers s) ->
  length (workers s') = length (workers s) -> invG s'.
Proof.
  intros Hs [_ HG] Hs' Hle Hlen. split; [rewrite Hs'; discriminate|]. intros _. rewrite Hlen. specialize (HG Hs). lia.
Qed.

Lemma is_send_next_case o rest st : is_send (next_case o rest st) = false.
Proof. unfold next_case. destruct rest; reflexivity. Qed.

Lemma invG_worker c s i w : nth_error (workers s) i = Some w -> invG s -> invG (worker_step c s i w).
Proof.
  intros Hi HG.
  assert (Hnosend : forall s' w', is_send w = false -> is_send w' = false ->
            sent s' = sent s -> stop s' = stop s -> limit s' = limit s -> workers s' = upd i w' (workers s) -> invG s').
  { intros s' w' H1 H2 E1 E2 E3 E4. pose proof (count_send_upd i w w' _ Hi) as Hc. rewrite H1, H2 in Hc. cbn in Hc.
    destruct HG as [G1 G2]. unfold invG, has_to_stop, sends_after_stop in *. rewrite E1, E2, E3, E4, upd_length.
    split; auto. intros H. specialize (G2 H). lia. }
  destruct w; cbn [worker_step].
  - destruct (has_to_stop s); (eapply Hnosend; [reflexivity | | reflexivity | reflexivity | reflexivity | cbn; reflexivity]; reflexivity).
  - destruct (ops s) as [|o rest];
      [eapply Hnosend; [reflexivity | | reflexivity | reflexivity | reflexivity | cbn; reflexivity]; reflexivity|].
    destruct (build_err o); (eapply Hnosend; [reflexivity | | reflexivity | reflexivity | reflexivity | cbn; reflexivity]; reflexivity).
  - eapply Hnosend; [reflexivity | | reflexivity | reflexivity | reflexivity | cbn; reflexivity]. apply is_send_next_case.
  - destruct (has_to_stop s) eqn:Es.
    + eapply Hnosend; [reflexivity | | reflexivity | reflexivity | reflexivity | cbn; reflexivity]; reflexivity.
    + (* passes the stop test: only possible while nobody asked to stop *)
      apply invG_of_zero. cbn. destruct HG as [G1 _]. apply G1. exact Es.
  - (* the request is sent *)
    assert (Hg : forall w', is_send w' = false ->
       invG (set_worker {| queue := queue s; emitted := emitted s; ops := ops s; stop := stop s; limit := limit s;
                   counter := counter s; cstatus := cstatus s; executed := executed s; cp := cp s;
                   workers := workers s; sent := (op_id o, has_to_stop s) :: sent s; dropped := dropped s |} i w')).
    { intros w' Hw'. pose proof (count_send_upd i _ w' _ Hi) as Hc. rewrite Hw' in Hc. cbn in Hc.
      destruct HG as [G1 G2]. unfold invG, has_to_stop, sends_after_stop in *. cbn.
      destruct (stop s || limit s) eqn:Es; cbn.
      - split; [discriminate|]. intros _. rewrite upd_length. specialize (G2 eq_refl). unfold count_send in *. lia.
      - split; [intros _; apply G1; reflexivity | discriminate]. }
    destruct c0; [apply Hg, is_send_next_case | destruct (cof c); apply Hg; auto using is_send_next_case | apply Hg; reflexivity].
  - destruct script as [|e k];
      [eapply Hnosend; [reflexivity | | reflexivity | reflexivity | reflexivity | cbn; reflexivity]; reflexivity|].
    eapply Hnosend; [reflexivity | | reflexivity | reflexivity | reflexivity | cbn; reflexivity].
    unfold after_put. destruct k; reflexivity.
  - exact HG.
Qed.

Lemma invG_step c s l : invG s -> invG (step c s l).
Proof.
  intros HG. destruct l; cbn [step].
  - (* the consumer never changes sent or the workers; has_to_stop only grows *)
    assert (Hgen : forall s', sent s' = sent s -> workers s' = workers s ->
              (has_to_stop s = true -> has_to_stop s' = true) -> invG s').
    { intros s' E1 E2 Hm. destruct HG as [G1 G2]. unfold invG, sends_after_stop in *. rewrite E1, E2.
      destruct (has_to_stop s) eqn:Es.
      - rewrite (Hm eq_refl). split; [discriminate|auto].
      - split; [intros _; auto|]. intros _. rewrite (G1 eq_refl). apply count_send_le. }
    unfold consumer_step. destruct (cp s).
    + destruct (queue s); [apply Hgen; auto|].
      destruct (stop s) eqn:Es; apply Hgen; auto; unfold has_to_stop; cbn; rewrite ?Es; auto.
    + destruct (if counts_as_failure e then count_failure c (counter s) (limit s) else (counter s, limit s)) as [n lim] eqn:E.
      assert (Hl : limit s = true -> lim = true).
      { intros Hl. destruct (counts_as_failure e); [|inversion E; subst; auto].
        unfold count_failure in E. destruct (maxf c); inversion E; subst; auto. destruct (_ <=? _)%nat; auto. }
      apply Hgen; auto. unfold has_to_stop. cbn. intros H. apply orb_true_iff in H. apply orb_true_iff.
      destruct H as [H|H]; [left; rewrite H, orb_true_r; reflexivity | right; auto].
    + apply Hgen; auto.
    + apply Hgen; auto.
    + exact HG.
  - destruct (nth_error (workers s) i) eqn:Ei; auto. apply invG_worker; auto.
  - destruct HG as [G1 G2]. unfold invG, has_to_stop, sends_after_stop in *. cbn.
    split; [discriminate|]. intros _. destruct (stop s || limit s) eqn:Es.
    + apply G2; reflexivity.
    + rewrite (G1 eq_refl). apply count_send_le.
Qed.

Lemma invG_init n os : invG (init n os).
Proof. apply invG_of_zero. reflexivity. Qed.

Lemma sends_after_stop_le_workers c sched n os :
  sends_after_stop (run c sched (init n os)) <= n.
Proof.
  assert (HG : invG (run c sched (init n os))) by (apply run_inv; [intros; apply invG_step; auto | apply invG_init]).
  pose proof (run_workers_length c sched (init n os)) as Hlen. cbn in Hlen. rewrite repeat_length in Hlen.
  destruct HG as [G1 G2]. destruct (has_to_stop (run c sched (init n os))) eqn:E.
  - specialize (G2 eq_refl). lia.
  - rewrite (G1 eq_refl). lia.
Qed.

(* ------------------------------------------------------------------ *)
(* H: no more than max_failures failed or errored scenarios are reported *)
(* ------------------------------------------------------------------ *)
Definition processed (s : state) : list ev :=
  match cp s with CPost _ => tl (emitted s) | _ => emitted s end.

Definition invH (m : nat) (s : state) : Prop :=
  counter s = failed_scenarios (processed s) /\
  (limit s = false -> counter s < m) /\ counter s <= m /\
  (limit s = true -> cp s = CDone) /\
  (forall e, cp s = CPost e -> exists t, emitted s = e :: t).

Lemma failed_cons e t : failed_scenarios (e :: t) = b2n (counts_as_failure e) + failed_scenarios t.
Proof. unfold failed_scenarios. cbn. destruct (counts_as_failure e); reflexivity. Qed.

Lemma worker_step_frame c s i w :
  emitted (worker_step c s i w) = emitted s /\ counter (worker_step c s i w) = counter s.
Proof.
  destruct w; cbn [worker_step]; auto.
  - destruct (ops s); auto. destruct (build_err o); auto.
  - destruct (has_to_stop s); auto.
  - destruct c0; auto. destruct (cof c); auto.
  - destruct script; auto.
Qed.

Lemma invH_step c m s l : maxf c = Some m -> 1 <= m -> invH m s -> invH m (step c s l).
Proof.
  intros Hm Hm1 (H1 & H2 & H3 & H4 & H5). destruct l; cbn [step].
  - unfold consumer_step. destruct (cp s) eqn:Ecp.
    + unfold processed in H1. rewrite Ecp in H1.
      destruct (queue s) as [|e q].
      * unfold invH, processed. cbn [cp emitted counter limit]. repeat split; auto.
        intros H; specialize (H4 H); discriminate. intros e H; discriminate.
      * destruct (stop s).
        -- unfold invH, processed. cbn [cp emitted counter limit]. rewrite failed_cons. cbn [counts_as_failure b2n].
           repeat split; auto. intros e0 H; discriminate.
        -- unfold invH, processed. cbn [cp emitted counter limit tl]. repeat split; auto.
           ++ intros H; specialize (H4 H); discriminate.
           ++ intros e0 H. inversion H; subst. eexists; reflexivity.
    + destruct (H5 e eq_refl) as [t Et].
      assert (Hlim : limit s = false).
      { destruct (limit s) eqn:El; auto. specialize (H4 eq_refl). discriminate. }
      unfold processed in H1. rewrite Ecp, Et in H1. cbn [tl] in H1.
      specialize (H2 Hlim).
      destruct (if counts_as_failure e then count_failure c (counter s) (limit s) else (counter s, limit s)) as [n lim] eqn:E.
      assert (Hn : n = b2n (counts_as_failure e) + counter s /\ (lim = true -> n = m /\ counts_as_failure e = true) /\ (lim = false -> n < m)).
      { destruct (counts_as_failure e).
        - unfold count_failure in E. rewrite Hm, Hlim in E. inversion E; subst. cbn [b2n].
          destruct (m <=? S (counter s))%nat eqn:Ele; [apply Nat.leb_le in Ele | apply Nat.leb_gt in Ele];
            (split; [lia|]); split; intros; try discriminate; try split; try lia; auto.
        - inversion E; subst. cbn. split; auto. rewrite Hlim. split; [discriminate | auto]. }
      destruct Hn as (Hn1 & Hn2 & Hn3).
      unfold invH, processed. cbn [cp emitted counter limit].
      assert (Hcnt : n = failed_scenarios (emitted s)) by (rewrite Et, failed_cons; lia).
      destruct lim.
      * destruct (Hn2 eq_refl) as [Hnm _]. rewrite orb_true_r.
        repeat split; auto; try lia; try discriminate; intros ? H; discriminate.
      * specialize (Hn3 eq_refl).
        destruct ((if is_interrupt e || stop s then true else stop s) || false);
          repeat split; auto; try lia; try discriminate; intros ? H; discriminate.
    + unfold processed in H1. rewrite Ecp in H1. unfold invH, processed. cbn [cp emitted counter limit].
      destruct (forallb is_dead (workers s)); [destruct (drain_fix c)|];
        repeat split; auto; try (intros H; specialize (H4 H); discriminate); intros ? H; discriminate.
    + unfold processed in H1. rewrite Ecp in H1. unfold invH, processed. cbn [cp emitted counter limit].
      destruct (queue s);
        repeat split; auto; try (intros H; specialize (H4 H); discriminate); intros e0 H; discriminate.
    + unfold invH. rewrite Ecp. repeat split; auto.
  - destruct (nth_error (workers s) i) eqn:Ei; [|repeat split; auto].
    destruct (worker_step_flags c s i w) as (F1 & F2 & F3). destruct (worker_step_frame c s i w) as (F4 & F5).
    unfold invH, processed. rewrite F2, F3, F4, F5. repeat split; auto.
  - unfold invH, processed in *. cbn [cp emitted counter limit]. repeat split; auto.
Qed.

Lemma invH_init m n os : 1 <= m -> invH m (init n os).
Proof. intros H. unfold invH, processed. cbn. repeat split; auto; try lia; try discriminate. Qed.

Lemma failed_rev t : failed_scenarios (rev t) = failed_scenarios t.
Proof.
  unfold failed_scenarios. induction t as [|e t IH]; cbn; auto.
  rewrite filter_app, app_length, IH. cbn. destruct (counts_as_failure e); cbn; lia.
Qed.

Lemma reported_failures_le_max c m sched n os : maxf c = Some m -> 1 <= m ->
  failed_scenarios (trace (run c sched (init n os))) <= m.
Proof.
  intros Hm Hm1.
  assert (HH : invH m (run c sched (init n os))).
  { apply run_inv; [intros; apply (invH_step c); auto | apply invH_init; auto]. }
  destruct HH as (H1 & H2 & H3 & H4 & H5). unfold trace. rewrite failed_rev.
  unfold processed in H1. destruct (cp (run c sched (init n os))) eqn:Ecp; try (rewrite <- H1; exact H3).
  destruct (H5 e eq_refl) as [t Et]. rewrite Et in *. cbn [tl] in H1. rewrite failed_cons. unfold failed_scenarios in H1.
  assert (limit (run c sched (init n os)) = false).
  { destruct (limit (run c sched (init n os))) eqn:El; auto. specialize (H4 eq_refl). discriminate. }
  specialize (H2 H). unfold failed_scenarios. destruct (counts_as_failure e); cbn [b2n]; lia.
Qed.

(* later phases are skipped with the reason once the limit is reached (plan level) *)
Lemma plan_skips_after_limit p phases stop0 :
  Forall (fun e => match e with
                   | PhaseFinished _ st lim => st = SKIP /\ lim = true
                   | PhaseStarted _ => True
                   | _ => False end)
         (plan_loop p phases stop0 true).
Proof.
  revert p stop0. induction phases as [|[pc pr] rest IH]; intros p stop0; cbn; auto.
  rewrite orb_true_r, andb_false_r. cbn. constructor; auto. constructor; auto.
  destruct stop0; auto.
Qed.

(* non-vacuity and sharpness *)
Lemma sends_bound_is_reached :
  let s := run (cfg_now None) [W 0; W 0; W 0; W 0; W 1; W 1; W 1; W 1; Stop; W 0; W 1; W 0; W 1]
               (init 2 [op_ok 0 3; op_ok 1 3]) in
  sends_after_stop s = 2 /\ length (sent s) = 2.
Proof. vm_compute. split; reflexivity. Qed.

Lemma failures_bound_is_reached :
  let s := run (cfg_now (Some 1)) sched_limit (init 2 [op_fail 0; op_ok 1 2]) in
  failed_scenarios (trace s) = 1 /\ limit s = true.
Proof. vm_compute. split; reflexivity. Qed.

(* ------------------------------------------------------------------ *)
(* I: after a stop request at most one more operation per worker is fetched *)
(* ------------------------------------------------------------------ *)
Definition is_fetch (w : wpc) : bool := match w with WFetch => true | _ => false end.
Definition count_fetch (ws : list wpc) : nat := length (filter is_fetch ws).

Lemma count_fetch_le ws : count_fetch ws <= length ws.
Proof. unfold count_fetch. induction ws as [|w ws IH]; cbn; auto. destruct (is_fetch w); cbn; lia. Qed.

Lemma count_fetch_upd i w w' ws : nth_error ws i = Some w ->
  count_fetch (upd i w' ws) + b2n (is_fetch w) = count_fetch ws + b2n (is_fetch w').
Proof.
  unfold count_fetch. revert i. induction ws as [|y ws IH]; intros [|i] H; cbn in *; try discriminate.
  - inversion H; subst. destruct (is_fetch w), (is_fetch w'); cbn; lia.
  - specialize (IH _ H). destruct (is_fetch y); cbn; lia.
Qed.

Definition invI (ops0 cf0 : nat) (s : state) : Prop :=
  has_to_stop s = true /\ ops0 + count_fetch (workers s) <= length (ops s) + cf0.

Lemma is_fetch_next_case o rest st : is_fetch (next_case o rest st) = false.
Proof. unfold next_case. destruct rest; reflexivity. Qed.

Lemma invI_step c ops0 cf0 s l : invI ops0 cf0 s -> invI ops0 cf0 (step c s l).
Proof.
  intros [Hs HI]. destruct l; cbn [step].
  - (* consumer: ops and workers untouched, has_to_stop only grows *)
    assert (Hgen : forall s', ops s' = ops s -> workers s' = workers s -> has_to_stop s' = true -> invI ops0 cf0 s').
    { intros s' E1 E2 E3. split; auto. rewrite E1, E2. exact HI. }
    unfold consumer_step. destruct (cp s).
    + destruct (queue s); [apply Hgen; auto|]. destruct (stop s) eqn:Es; apply Hgen; auto; unfold has_to_stop in *; cbn; rewrite ?Es in *; auto.
    + destruct (if counts_as_failure e then count_failure c (counter s) (limit s) else (counter s, limit s)) as [n lim] eqn:E.
      apply Hgen; auto. unfold has_to_stop in *. cbn. apply orb_true_iff in Hs. apply orb_true_iff.
      destruct Hs as [H|H]; [left; rewrite H, orb_true_r; reflexivity | right; eapply count_failure_limit_mono; eauto].
    + apply Hgen; auto.
    + apply Hgen; auto.
    + split; auto.
  - destruct (nth_error (workers s) i) eqn:Ei; [|split; auto].
    split; [rewrite has_to_stop_mono_worker; exact Hs|].
    assert (Hkeep : forall s' w', is_fetch w' = false -> ops s' = ops s -> workers s' = upd i w' (workers s) ->
              ops0 + count_fetch (workers s') <= length (ops s') + cf0).
    { intros s' w' Hw E1 E2. rewrite E1, E2. pose proof (count_fetch_upd i w w' _ Ei) as Hc. rewrite Hw in Hc. cbn in Hc.
      destruct (is_fetch w); cbn in Hc; lia. }
    destruct w; cbn [worker_step].
    + rewrite Hs. apply (Hkeep _ WDead); auto.
    + (* the fetch itself: one operation less, one worker less in WFetch *)
      pose proof (count_fetch_upd i WFetch) as Hc.
      destruct (ops s) as [|o rest] eqn:Eo.
      * specialize (Hc WDead _ Ei). cbn in Hc. cbn [set_worker ops workers length]. rewrite Eo. cbn [length] in *. lia.
      * cbn [length] in HI. destruct (build_err o); cbn [set_worker ops workers length].
        -- specialize (Hc (WPut [ScStart (op_id o); NonFatal (op_id o); ScFinish (op_id o) ERROR]) _ Ei). cbn in Hc. lia.
        -- specialize (Hc (WStart o) _ Ei). cbn in Hc. lia.
    + apply (Hkeep _ (next_case o (cases o) SUCCESS)); auto. apply is_fetch_next_case.
    + rewrite Hs. apply (Hkeep _ (WPut [ScFinish (op_id o) INTERRUPTED; Interrupt])); auto.
    + destruct c0; [|destruct (cof c)|].
      * apply (Hkeep _ (next_case o rest st)); auto. apply is_fetch_next_case.
      * apply (Hkeep _ (next_case o rest FAILURE)); auto. apply is_fetch_next_case.
      * apply (Hkeep _ (WPut [ScFinish (op_id o) FAILURE])); auto.
      * apply (Hkeep _ (WPut [NonFatal (op_id o); ScFinish (op_id o) ERROR])); auto.
    + destruct script as [|e k]; [apply (Hkeep _ WLoop); auto|].
      apply (Hkeep _ (after_put k)); auto. unfold after_put. destruct k; reflexivity.
    + exact HI.
  - split; auto.
Qed.

(* From ANY state (reachable or not) in which a stop was requested or the limit reached: however the run
   continues, at most one further operation per worker is taken from the producer. *)
Lemma fetches_after_stop_le_workers c sched a :
  has_to_stop a = true ->
  length (ops a) - length (ops (run c sched a)) <= length (workers a).
Proof.
  intros Hs.
  assert (H : invI (length (ops a)) (count_fetch (workers a)) (run c sched a)).
  { apply run_inv; [intros; apply invI_step; auto|]. split; auto. }
  destruct H as [_ H]. pose proof (count_fetch_le (workers a)). lia.
Qed.

Lemma no_scenario_after_stop c s1 s2 n os :
  let a := step c (run c s1 (init n os)) Stop in
  length (ops a) - length (ops (run c s2 a)) <= n.
Proof.
  intros a. pose proof (fetches_after_stop_le_workers c s2 a) as H.
  assert (Hlen : length (workers a) = n).
  { unfold a. cbn. rewrite run_workers_length. cbn. apply repeat_length. }
  rewrite Hlen in H. apply H. reflexivity.
Qed.
