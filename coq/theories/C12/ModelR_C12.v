(* C12, rate limit: the contract schemathesis relies on (core/rate_limit.py hands every request to
   pyrate_limiter's Limiter.try_acquire before it is sent; transport/requests.py: `with ratelimit(...)`).
   The limiter itself is foreign code: it is modelled by its sliding-window guard and validated against the
   real limiter on every run (a grant the guard would refuse is a broken tie).  Times are integers (ms).
   Definitions only. *)
From Coq Require Import List ZArith Bool Arith.
Import ListNotations.
Local Open Scope Z_scope.

Definition countp (p : Z -> bool) (l : list Z) : nat := length (filter p l).

(* grants strictly younger than one interval at time t *)
Definition recent (interval t : Z) (h : Z) : bool := t - interval <? h.
(* a window [a, a + interval) as the API under test may cut it *)
Definition in_window (interval a : Z) (h : Z) : bool := (a <=? h) && (h <? a + interval).

(* an attempt at time t is granted iff fewer than `limit` grants are younger than one interval;
   a refused attempt leaves the state alone (the caller sleeps and tries again later) *)
Definition acquire (limit : nat) (interval : Z) (grants : list Z) (t : Z) : list Z * bool :=
  if Nat.ltb (countp (recent interval t) grants) limit then (t :: grants, true) else (grants, false).

Definition attempts (limit : nat) (interval : Z) (ts : list Z) : list Z :=
  fold_left (fun g t => fst (acquire limit interval g t)) ts [].

(* parse_units / _get_max_delay *)
Definition unit_ms (u : nat) : Z := match u with 0%nat => 1000 | 1%nat => 60000 | 2%nat => 3600000 | _ => 86400000 end.
Definition max_delay_ms (limit : Z) (u : nat) : Z := limit * (unit_ms u / 1000) * 1000 + 100.
