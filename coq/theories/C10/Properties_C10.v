(* C10 property theorems only. *)
From Coq Require Import List NArith ZArith Bool.
From Verif Require Import Common.Str Common.Json C10.Model_C10 C10.Proofs_C10.
Import ListNotations.

(* get_operation_by_reference / resolve_pointer undo what operation_reference does to a path, whatever the characters *)
Theorem C10_pointer_escape_roundtrip : forall t, unescape (escape t) = t.
Proof. exact pointer_escape_roundtrip. Qed.
Print Assumptions C10_pointer_escape_roundtrip.
