(* C10 property theorems only.  Each is closed by [exact] of a lemma of Proofs_C10 and followed by Print Assumptions. *)
From Coq Require Import List NArith ZArith Bool.
From Verif Require Import Common.Str Common.Json C10.Model_C10 C10.Proofs_C10.
Import ListNotations.

(* get_operation_by_reference / resolve_pointer undo what operation_reference does to a path, whatever the characters *)
Theorem C10_pointer_escape_roundtrip : forall t, unescape (escape t) = t.
Proof. exact pointer_escape_roundtrip. Qed.
Print Assumptions C10_pointer_escape_roundtrip.

(* resolve_pointer (as repaired by commits 5f4626e6 and 6e969657) is RFC 6901 for every document and every pointer whose
   escapes are valid *)
Theorem C10_pointer_rfc6901_partial : forall d p,
  valid_escapes p = true -> resolve_pointer d p = w_of_opt (rfc6901 d p).
Proof. exact pointer_rfc6901_partial. Qed.
Print Assumptions C10_pointer_rfc6901_partial.

(* without that hypothesis the statement is false: /a~2 (a ~ followed by neither 0 nor 1, taken literally) resolves *)
Theorem C10_pointer_rfc6901_refuted :
  exists d p, valid_escapes p = false /\ resolve_pointer d p <> w_of_opt (rfc6901 d p).
Proof. exists d_tilde, p_tilde. exact pointer_refuted_tilde. Qed.
Print Assumptions C10_pointer_rfc6901_refuted.

(* regression sentinel: the resolver as it was before the repair (array tokens through int()) is NOT RFC 6901 on /a/-1, / 1, /1_0,
   it was RFC 6901 outside lenient_hit, and the current resolver answers UNRESOLVABLE on those witnesses *)
Theorem C10_pointer_int_lenient_sentinel :
  (exists d p, lenient_hit d p = true /\ resolve_pointer_int_lenient d p <> of_opt (rfc6901 d p) /\ resolve_pointer d p = WUnres) /\
  (resolve_pointer_int_lenient d_10_20 p_space <> of_opt (rfc6901 d_10_20 p_space) /\ resolve_pointer d_10_20 p_space = WUnres) /\
  (resolve_pointer_int_lenient d_0_19 p_under <> of_opt (rfc6901 d_0_19 p_under) /\ resolve_pointer d_0_19 p_under = WUnres) /\
  (forall d p, valid_escapes p = true -> short_tokens p = true -> lenient_hit d p = false ->
     resolve_pointer_int_lenient d p = of_opt (rfc6901 d p)).
Proof.
  destruct repaired_on_legacy_witnesses as [R1 [R2 R3]].
  split; [exists d_a123, p_neg; split; [exact (proj1 legacy_refuted_regions)|split; [exact legacy_refuted_neg|exact R1]]|].
  split; [split; [exact legacy_refuted_space|exact R2]|]. split; [split; [exact legacy_refuted_under|exact R3]|].
  exact legacy_pointer_rfc6901_partial.
Qed.
Print Assumptions C10_pointer_int_lenient_sentinel.

(* a response filter says exactly what the response key means: exact code, NXX wildcard,
   default = no other documented key matches *)
Theorem C10_status_filter_iff : forall key keys code,
  (str_eqb key s_default || wf_key key) = true -> wf_keys keys = true ->
  response_filter key keys code = Some (spec_matches key keys code).
Proof. exact status_filter_iff. Qed.
Print Assumptions C10_status_filter_iff.

(* a response is stored only in a bundle whose key it matches: a link is followed only from such responses *)
Theorem C10_bundle_sound : forall link_keys keys code k,
  wf_keys link_keys = true -> wf_keys keys = true -> bundle_of link_keys keys code = Some k ->
  In k link_keys /\ spec_matches k keys code = true.
Proof. exact bundle_sound. Qed.
Print Assumptions C10_bundle_sound.

(* the state machine as wired by create_state_machine (filters built against EVERY documented response key, matcher over the
   outgoing links in order): a response reaches only a bundle of a key that carries links and that it matches *)
Theorem C10_machine_bundle_sound : forall op code k,
  wf_keys (documented_keys op) = true -> machine_bundle op code = Some k ->
  In k (outgoing_keys op) /\ spec_matches k (documented_keys op) code = true.
Proof. exact machine_bundle_sound. Qed.
Print Assumptions C10_machine_bundle_sound.

(* default = no other DOCUMENTED code, whether or not that code has links of its own *)
Theorem C10_documented_key_blocks_default : forall op code k n,
  wf_keys (documented_keys op) = true -> In (k, n) op -> str_eqb k s_default = false -> key_matches k code = true ->
  machine_bundle op code <> Some s_default.
Proof. exact documented_blocks_default. Qed.
Print Assumptions C10_documented_key_blocks_default.

(* every expression of the grammar whose names have no . $ # { } and whose pointer / regex has no }
   is read back by lexer + parser as itself, and evaluates to its denotation (pointers per RFC 6901) *)
Theorem C10_parse_print_partial : forall rx_ok e,
  simple_expr rx_ok e = true -> parse rx_ok (print e) = Some (POk [node_of e]).
Proof. exact parse_print. Qed.
Print Assumptions C10_parse_print_partial.

Theorem C10_eval_denotes_partial : forall rx_ok rx_extract cx e,
  simple_expr rx_ok e = true -> ptr_strict cx e = true ->
  eval_str rx_ok rx_extract cx (print e) = denote rx_extract cx e.
Proof. exact eval_denotes_partial. Qed.
Print Assumptions C10_eval_denotes_partial.

(* nested link bodies (_evaluate_nested), by the induction principle of json: whatever the nesting (arrays of objects, arrays of
   arrays, objects of arrays of objects, ...), if every leaf string - value or key - evaluates on its own to a JSON value or to
   UNRESOLVABLE, the body evaluates to UNRESOLVABLE iff some leaf does, and otherwise to the body with EVERY leaf at EVERY depth
   replaced by its own value (keys rendered by _evaluate_object_key, later duplicates overwriting) *)
Theorem C10_nested_body_denotes : forall rx_ok rx_extract cx e,
  leaves_ok rx_ok rx_extract cx e = true ->
  evaluate rx_ok rx_extract cx e true =
    if has_unres rx_ok rx_extract cx e then OVal VUnres else OVal (VJ (subst_nested rx_ok rx_extract cx e)).
Proof. exact nested_body_denotes. Qed.
Print Assumptions C10_nested_body_denotes.

(* outside that region the statement is false *)
Theorem C10_eval_denotes_refuted_dotted_name : exists rx_ok rx_extract cx e,
  abnf_ok e = true /\ denote rx_extract cx e = OVal (VJ (JStr [118])) /\
  eval_str rx_ok rx_extract cx (print e) = OParseErr ErrExpr.
Proof. exists rx_any, rx_none, cx0, e_dotted. exact eval_refuted_dotted_name. Qed.
Print Assumptions C10_eval_denotes_refuted_dotted_name.

Theorem C10_eval_denotes_refuted_pointer_brace : exists rx_ok rx_extract cx e,
  abnf_ok e = true /\ denote rx_extract cx e = OVal (VJ (JInt 5)) /\
  eval_str rx_ok rx_extract cx (print e) = OParseErr ErrExpr.
Proof. exists rx_any, rx_none, cx0, e_ptr_rb. exact eval_refuted_pointer_brace. Qed.
Print Assumptions C10_eval_denotes_refuted_pointer_brace.

Theorem C10_eval_denotes_refuted_embedded_body : exists rx_ok rx_extract cx t,
  forallb gitem_ok t = true /\ eval_str rx_ok rx_extract cx (print_tpl t) = OParseErr ErrExpr.
Proof. exists rx_any, rx_none, cx0, t_emb_body. exact eval_refuted_embedded_body. Qed.
Print Assumptions C10_eval_denotes_refuted_embedded_body.

(* a constant containing # is in the grammar, denotes itself, and evaluates to its prefix *)
Theorem C10_eval_denotes_refuted_hash_text : exists rx_ok rx_extract cx s,
  forallb gitem_ok [TText s] = true /\ eval_str rx_ok rx_extract cx (print_tpl [TText s]) = OVal (VJ (JStr [97])) /\ s <> [97].
Proof.
  exists rx_any, rx_none, cx0, e_a_hash_b. split; [exact (proj1 eval_refuted_hash_text)|]. split; [exact (proj2 eval_refuted_hash_text)|discriminate].
Qed.
Print Assumptions C10_eval_denotes_refuted_hash_text.

(* malformed expressions are NOT always rejected: $url.x is outside the grammar and evaluates to something *)
Theorem C10_rejects_malformed_refuted : exists rx_ok e ns, ~ in_grammar e /\ parse rx_ok e = Some (POk ns).
Proof. exists rx_any, e_url_x, [NUrl; NString [46]; NString [120]]. exact rejects_malformed_refuted. Qed.
Print Assumptions C10_rejects_malformed_refuted.

(* link values override generated ones: a name the generator leaves alone keeps the link value *)
Theorem C10_link_values_override_generated : forall kw c d n v gen,
  assoc_get c kw = Some d -> assoc_get n d = Some v ->
  (forall g, gen (map fst d) = Some g -> assoc_get n g = None) ->
  exists f, final_container kw c gen = Some f /\ assoc_get n f = Some v.
Proof. exact link_values_override_generated. Qed.
Print Assumptions C10_link_values_override_generated.

(* body: replaced when merge_body is off; merged with the link members winning when both are objects; replaced otherwise *)
Theorem C10_link_body_overrides_generated : forall merge new g,
  is_unres new = false ->
  (merge = false -> final_body merge (body_ready (Some (XOk new))) g = new) /\
  (forall gm nm k w, merge = true -> g = VJ (JObj gm) -> new = VJ (JObj nm) -> NoDup (map fst nm) -> assoc_get k nm = Some w ->
     exists fm, final_body merge (body_ready (Some (XOk new))) g = VJ (JObj fm) /\ assoc_get k fm = Some w) /\
  (merge = true -> (forall gm nm, ~ (g = VJ (JObj gm) /\ new = VJ (JObj nm))) -> final_body merge (body_ready (Some (XOk new))) g = new).
Proof. exact body_override. Qed.
Print Assumptions C10_link_body_overrides_generated.

(* ... but for headers the exclusion from generation is case-sensitive while the case is case-insensitive:
   a generator that honours exclude still replaces the link value *)
Theorem C10_link_values_override_generated_refuted_header_case : exists kw gen n v,
  (forall excl g m, gen excl = Some g -> In m excl -> assoc_get m g = None) /\
  (exists d, assoc_get s_headers kw = Some d /\ assoc_get n d = Some v) /\
  exists f, final_headers kw gen = Some f /\ ci_lookup n f <> Some v.
Proof.
  exists kw_case, gen_case, [120;45;116], (VJ (JStr [80;79;83;84])).
  split; [exact (proj1 override_refuted_header_case)|]. split; [eexists; split; reflexivity|].
  destruct (proj2 override_refuted_header_case) as [f [H1 H2]]. exists f. split; [exact H1|]. rewrite H2. discriminate.
Qed.
Print Assumptions C10_link_values_override_generated_refuted_header_case.

(* UNRESOLVABLE (and None) never reaches the derived case: not through parameters, not through the body *)
Theorem C10_unresolvable_never_sent : forall rx_ok rx_extract cx l c gen d n v,
  (forall excl g m w, gen excl = Some g -> In (m, w) g -> w <> VUnres) ->
  final_container (kwargs_of (extract_parameters rx_ok rx_extract cx l)) c gen = Some d -> In (n, v) d -> v <> VUnres.
Proof. exact unresolvable_never_sent. Qed.
Print Assumptions C10_unresolvable_never_sent.

Theorem C10_unresolvable_never_sent_body : forall merge xb g,
  g <> VUnres -> final_body merge (body_ready xb) g <> VUnres.
Proof. exact unresolvable_never_sent_body. Qed.
Print Assumptions C10_unresolvable_never_sent_body.

Theorem C10_kwargs_never_unresolvable : forall e c d n v,
  In (c, d) (kwargs_of e) -> In (n, v) d -> v <> VUnres /\ v <> VJ JNull.
Proof. exact kwargs_never_unresolvable. Qed.
Print Assumptions C10_kwargs_never_unresolvable.

(* ---- the value domain of the source request (after the seeded regression C10_c: value or UNRESOLVABLE) ---- *)

(* $request.query|path|header.name: a parameter the source request carries with a non-null value v evaluates to exactly v,
   for EVERY v: 0, 0.0, the empty string, false, [], {} as much as a truthy one; and that is never UNRESOLVABLE *)
Theorem C10_request_value_denotes : forall rx_ok rx_extract cx l name v,
  name_ok name = true -> source_param cx l name = Some v -> v <> PJ JNull ->
  eval_str rx_ok rx_extract cx (print (RReq l name None)) = OVal (value_of_pval v) /\ value_of_pval v <> VUnres.
Proof. exact request_value_denotes. Qed.
Print Assumptions C10_request_value_denotes.

(* ... and it is UNRESOLVABLE exactly when the request has no such parameter, or it is null: absent is not falsy *)
Theorem C10_request_value_unresolvable_iff : forall rx_ok rx_extract cx l name,
  name_ok name = true ->
  (eval_str rx_ok rx_extract cx (print (RReq l name None)) = OVal VUnres
   <-> (source_param cx l name = None \/ source_param cx l name = Some (PJ JNull))).
Proof. exact request_value_unresolvable_iff. Qed.
Print Assumptions C10_request_value_unresolvable_iff.

Theorem C10_absent_request_value_unresolvable : forall rx_ok rx_extract cx l name rx,
  name_ok name = true -> rx_region rx_ok rx = true ->
  (source_param cx l name = None \/ source_param cx l name = Some (PJ JNull)) ->
  eval_str rx_ok rx_extract cx (print (RReq l name rx)) = OVal VUnres.
Proof. exact absent_request_value_unresolvable. Qed.
Print Assumptions C10_absent_request_value_unresolvable.

(* a template is UNRESOLVABLE only through an UNRESOLVABLE part: falsy parts (0, empty string, False, None) do not poison it *)
Theorem C10_template_resolvable : forall vs, existsb is_unres vs = false -> combine vs <> VUnres.
Proof. exact combine_resolvable. Qed.
Print Assumptions C10_template_resolvable.

(* end to end: the (last) link parameter c.n: $request.<loc>.<name> puts exactly the source request's value, falsy or not, into
   container c of the derived case, whatever the generator offers for other names (exclude contract) *)
Theorem C10_link_carries_source_value : forall rx_ok rx_extract cx loc name c n v gen ps mb mm,
  name_ok name = true -> source_param cx loc name = Some v -> v <> PJ JNull ->
  (forall excl g, In n excl -> gen excl = Some g -> assoc_get n g = None) ->
  exists f,
    final_container (kwargs_of (extract_parameters rx_ok rx_extract cx
                       {| l_params := ps ++ [plain_param c n loc name]; l_body := mb; l_merge := mm |})) c gen = Some f
    /\ assoc_get n f = Some (value_of_pval v) /\ value_of_pval v <> VUnres.
Proof. exact link_carries_source_value. Qed.
Print Assumptions C10_link_carries_source_value.

(* HISTORIES of evaluations on ONE link object (OpenApiLink.extract is memoised per source case id, a Transition holds references
   to its inner dicts): for every sequence of source exchanges, with repeats and in any interleaving, the k-th Transition returned -
   read when it is returned AND read again after the whole sequence - is the fresh extraction on its own source exchange: parent id,
   parameters and body are a function of that exchange only, whatever the link evaluated in between, whatever the cache size.
   Hypothesis: the case id identifies the exchange (it is what the memo is keyed by). *)
Theorem C10_link_extraction_independent_of_history :
  forall (src : Type) (cid : src -> N) (fresh : src -> extracted) (fresh_body : src -> option xval) (cap : nat) (containers : list str),
  (forall x y, cid x = cid y -> fresh_view src cid fresh fresh_body x = fresh_view src cid fresh fresh_body y) ->
  forall xs : list src,
    views_at_return src cid fresh fresh_body cap false containers xs = map (fresh_view src cid fresh fresh_body) xs /\
    views_at_end src cid fresh fresh_body cap false containers xs = map (fresh_view src cid fresh fresh_body) xs.
Proof. exact link_extraction_independent_of_history. Qed.
Print Assumptions C10_link_extraction_independent_of_history.

(* the instance the harness executes against OpenApiLink.extract: sources named by their case id in a table of exchanges,
   extraction = extract_parameters / extract_body of the link, lru_cache(8); no hypothesis left *)
Theorem C10_link_history_denotes : forall rx_ok rx_extract l tbl xs,
  link_history rx_ok rx_extract l false tbl xs
  = (link_fresh_views rx_ok rx_extract l tbl xs, link_fresh_views rx_ok rx_extract l tbl xs).
Proof. exact link_history_denotes. Qed.
Print Assumptions C10_link_history_denotes.

(* regression sentinel: inner dicts built once per link object and shared by all its Transitions (shallow copy of a prebuilt
   container layout).  Witness [A; B; A], query.id = $response.body#/id, response ids 1 and 2: the third Transition (memo hit
   for A) says id 2 under parent A, and re-read at the end the first one says id 2 as well; [A; A; B; B] does not show it *)
Theorem C10_link_shared_containers_sentinel :
  link_fresh_views rx_any rx_none link_id [cx_id 1; cx_id 2] [0%N; 1%N; 0%N] = [view_id 0 1; view_id 1 2; view_id 0 1] /\
  link_history rx_any rx_none link_id false [cx_id 1; cx_id 2] [0%N; 1%N; 0%N]
  = ([view_id 0 1; view_id 1 2; view_id 0 1], [view_id 0 1; view_id 1 2; view_id 0 1]) /\
  link_history rx_any rx_none link_id true [cx_id 1; cx_id 2] [0%N; 1%N; 0%N]
  = ([view_id 0 1; view_id 1 2; view_id 0 2], [view_id 0 2; view_id 1 2; view_id 0 2]) /\
  fst (link_history rx_any rx_none link_id true [cx_id 1; cx_id 2] [0%N; 0%N; 1%N; 1%N])
  = [view_id 0 1; view_id 0 1; view_id 1 2; view_id 1 2].
Proof. exact link_shared_containers_sentinel. Qed.
Print Assumptions C10_link_shared_containers_sentinel.
