(* C10 proofs *)
From Coq Require Import List NArith ZArith Bool Lia ZifyBool.
From Verif Require Import Common.Str Common.Json C10.Model_C10.
Import ListNotations.
Open Scope N_scope.

(* ---------- escape / unescape ---------- *)
Lemma replace2_cons_ne a b by_ x s : N.eqb x a = false -> replace2 a b by_ (x :: s) = x :: replace2 a b by_ s.
Proof. intros H. destruct s as [|y s]; cbn [replace2]; [reflexivity|]. rewrite H. reflexivity. Qed.

Lemma replace2_hit a b by_ s : replace2 a b by_ (a :: b :: s) = by_ ++ replace2 a b by_ s.
Proof. cbn [replace2]. rewrite !N.eqb_refl. reflexivity. Qed.

Lemma replace2_miss a b by_ x y s : N.eqb y b = false -> replace2 a b by_ (x :: y :: s) = x :: replace2 a b by_ (y :: s).
Proof. intros H. cbn [replace2]. rewrite H, andb_false_r. reflexivity. Qed.

Definition esc_char (c : N) : str := if N.eqb c TILDE then [TILDE; 48] else if N.eqb c SLASH then [TILDE; 49] else [c].

Lemma escape_flat s : escape s = flat_map esc_char s.
Proof.
  unfold escape, replace_char. induction s as [|c s IH]; [reflexivity|].
  cbn [flat_map]. rewrite flat_map_app, IH. f_equal.
  unfold esc_char. destruct (N.eqb c TILDE) eqn:E1.
  - reflexivity.
  - cbn [flat_map]. destruct (N.eqb c SLASH); reflexivity.
Qed.

Definition half_char (c : N) : str := if N.eqb c TILDE then [TILDE; 48] else [c].

Lemma unescape_step1 s : replace2 TILDE 49 [SLASH] (flat_map esc_char s) = flat_map half_char s.
Proof.
  induction s as [|c s IH]; [reflexivity|].
  cbn [flat_map]. unfold esc_char at 1, half_char at 1.
  destruct (N.eqb c TILDE) eqn:E1.
  - cbn [app]. rewrite replace2_miss by reflexivity.
    rewrite replace2_cons_ne by reflexivity. rewrite IH. reflexivity.
  - destruct (N.eqb c SLASH) eqn:E2.
    + apply N.eqb_eq in E2. subst c. cbn [app]. rewrite replace2_hit, IH. reflexivity.
    + cbn [app]. rewrite replace2_cons_ne by exact E1. rewrite IH. reflexivity.
Qed.

Lemma unescape_step2 s : replace2 TILDE 48 [TILDE] (flat_map half_char s) = s.
Proof.
  induction s as [|c s IH]; [reflexivity|].
  cbn [flat_map]. unfold half_char at 1. destruct (N.eqb c TILDE) eqn:E1.
  - apply N.eqb_eq in E1. subst c. cbn [app]. rewrite replace2_hit, IH. reflexivity.
  - cbn [app]. rewrite replace2_cons_ne by exact E1. rewrite IH. reflexivity.
Qed.

Lemma pointer_escape_roundtrip t : unescape (escape t) = t.
Proof. unfold unescape. rewrite escape_flat, unescape_step1. apply unescape_step2. Qed.

(* ---------- Python int() on canonical RFC 6901 indices ---------- *)
Lemma is_digit_bounds c : is_digit c = true -> 48 <= c /\ c <= 57.
Proof. unfold is_digit. rewrite andb_true_iff, !N.leb_le. tauto. Qed.

Lemma to_ascii_digits t : forallb is_digit t = true -> to_ascii t = Some t.
Proof.
  induction t as [|c t IH]; [reflexivity|]. cbn [forallb]. rewrite andb_true_iff. intros [Hc Ht].
  cbn [to_ascii]. rewrite (IH Ht). unfold to_ascii_char.
  apply is_digit_bounds in Hc. destruct (c <? 128) eqn:E; [reflexivity|]. apply N.ltb_ge in E. lia.
Qed.

Lemma digit_not_ws c : is_digit c = true -> mem c ascii_ws = false.
Proof.
  intros H. apply is_digit_bounds in H. unfold mem, ascii_ws. cbn [existsb].
  repeat match goal with |- context [N.eqb c ?k] => destruct (N.eqb_spec c k); [lia|] end. reflexivity.
Qed.

Lemma strip_left_digit c t : is_digit c = true -> strip_left ascii_ws (c :: t) = c :: t.
Proof. intros H. cbn [strip_left]. rewrite (digit_not_ws _ H). reflexivity. Qed.

Lemma forallb_rev {A} (f : A -> bool) l : forallb f (rev l) = forallb f l.
Proof.
  induction l as [|x l IH]; [reflexivity|]. cbn [rev forallb]. rewrite forallb_app, IH. cbn [forallb].
  rewrite andb_true_r. apply andb_comm.
Qed.

Lemma strip_digits t : forallb is_digit t = true -> strip ascii_ws t = t.
Proof.
  intros H. unfold strip. destruct t as [|c t]; [reflexivity|].
  cbn [forallb] in H. apply andb_true_iff in H. destruct H as [Hc Ht].
  rewrite (strip_left_digit _ _ Hc).
  assert (Hr : forallb is_digit (rev (c :: t)) = true).
  { rewrite forallb_rev. cbn [forallb]. rewrite Hc, Ht. reflexivity. }
  destruct (rev (c :: t)) as [|d r] eqn:E.
  - apply (f_equal (@rev N)) in E. rewrite rev_involutive in E. cbn in E. discriminate.
  - cbn [forallb] in Hr. apply andb_true_iff in Hr. destruct Hr as [Hd _].
    rewrite (strip_left_digit _ _ Hd). rewrite <- E. apply rev_involutive.
Qed.

Lemma digits_acc_cnt t : forall acc cnt prev n c, forallb is_digit t = true ->
  digits_acc t acc cnt prev = Some (n, c) -> c = cnt + N.of_nat (length t).
Proof.
  induction t as [|x t IH]; intros acc cnt prev n c Hd H.
  - cbn in H. destruct prev; inversion H. cbn. lia.
  - cbn [forallb] in Hd. apply andb_true_iff in Hd. destruct Hd as [Hx Ht].
    cbn [digits_acc] in H. rewrite Hx in H. apply (IH _ _ _ _ _ Ht) in H. cbn [length]. lia.
Qed.

Lemma canonical_digits t i : canonical_index t = Some i ->
  forallb is_digit t = true /\ t <> [] /\ exists n c, digits_acc t 0 0 false = Some (n, c) /\ i = Z.of_N n.
Proof.
  unfold canonical_index. destruct t as [|c r]; [discriminate|].
  destruct ((N.eqb c 48 && match r with [] => true | _ => false end) || ((49 <=? c) && (c <=? 57) && forallb is_digit r)) eqn:E; [|discriminate].
  destruct (digits_acc (c :: r) 0 0 false) as [[n k]|] eqn:D; [|discriminate].
  intros H. inversion H. split; [|split; [discriminate|exists n, k; split; reflexivity]].
  apply orb_true_iff in E. destruct E as [E|E].
  - apply andb_true_iff in E. destruct E as [E1 E2]. apply N.eqb_eq in E1. subst c. destruct r; [reflexivity|discriminate].
  - apply andb_true_iff in E. destruct E as [E Hr]. apply andb_true_iff in E. destruct E as [E1 E2].
    apply N.leb_le in E1. apply N.leb_le in E2.
    cbn [forallb]. rewrite Hr, andb_true_r. unfold is_digit. apply andb_true_iff. rewrite !N.leb_le. lia.
Qed.

Lemma py_int_canonical t i : canonical_index t = Some i -> (N.of_nat (length t) <=? MAX_STR_DIGITS) = true ->
  py_int t = Some i /\ (0 <= i)%Z.
Proof.
  intros H Hlen. destruct (canonical_digits _ _ H) as [Hd [Hne [n [c [Hacc ->]]]]].
  split; [|lia]. unfold py_int. rewrite (to_ascii_digits _ Hd), (strip_digits _ Hd).
  destruct t as [|x t]; [congruence|].
  assert (Hx : is_digit x = true) by (cbn [forallb] in Hd; apply andb_true_iff in Hd; tauto).
  apply is_digit_bounds in Hx.
  destruct (N.eqb_spec x 45); [lia|]. destruct (N.eqb_spec x 43); [lia|].
  rewrite Hacc. pose proof (digits_acc_cnt _ _ _ _ _ _ Hd Hacc) as Hc.
  apply N.leb_le in Hlen. destruct (MAX_STR_DIGITS <? c) eqn:E; [apply N.ltb_lt in E; lia|]. reflexivity.
Qed.

(* ---------- resolve_pointer vs RFC 6901 ---------- *)
Lemma step_agree target t : (N.of_nat (length t) <=? MAX_STR_DIGITS) = true ->
  (match target with JArr _ => canonical_index t <> None \/ step_py target t = None | _ => True end) ->
  step_py target t = step_rfc target t.
Proof.
  intros Hlen H. destruct target; try reflexivity. cbn [step_py step_rfc].
  destruct (canonical_index t) as [i|] eqn:C.
  - destruct (py_int_canonical _ _ C Hlen) as [-> Hi]. unfold py_index.
    destruct (i <? 0)%Z eqn:E; [apply Z.ltb_lt in E; lia|]. cbn [orb].
    destruct (Z.of_nat (length l) <=? i)%Z eqn:E2, (i <? Z.of_nat (length l))%Z eqn:E3; rewrite ?E; cbn [orb]; try reflexivity; exfalso; lia.
  - destruct H as [H|H]; [congruence|]. cbn [step_py] in H. exact H.
Qed.

Lemma walk_agree toks : forall d,
  forallb (fun t => N.of_nat (length t) <=? MAX_STR_DIGITS) toks = true ->
  lenient_hit_walk d toks = false -> walk step_py d toks = walk step_rfc d toks.
Proof.
  induction toks as [|t r IH]; intros d Hs Hl; [reflexivity|].
  cbn [forallb] in Hs. apply andb_true_iff in Hs. destruct Hs as [Ht Hr].
  cbn [walk lenient_hit_walk] in *.
  destruct (step_py d t) as [x|] eqn:S.
  - assert (A : step_py d t = step_rfc d t).
    { apply step_agree; [exact Ht|]. destruct d; try exact I. left. destruct (canonical_index t); [discriminate|discriminate Hl]. }
    rewrite <- A, S. apply IH; [exact Hr|]. destruct d; try exact Hl. destruct (canonical_index t); [exact Hl|discriminate].
  - assert (A : step_py d t = step_rfc d t).
    { apply step_agree; [exact Ht|]. destruct d; try exact I. right. exact S. }
    rewrite <- A, S. reflexivity.
Qed.

(* the legacy resolver (sentinel) was RFC 6901 outside its lenient region *)
Lemma legacy_pointer_rfc6901_partial d p :
  valid_escapes p = true -> short_tokens p = true -> lenient_hit d p = false ->
  resolve_pointer_int_lenient d p = of_opt (rfc6901 d p).
Proof.
  intros Hv Hs Hl. unfold resolve_pointer_int_lenient, rfc6901, lenient_hit in *. destruct p as [|c p]; [reflexivity|].
  destruct (N.eqb c SLASH) eqn:E; [|reflexivity]. cbn [andb] in *. rewrite Hv.
  f_equal. apply walk_agree; assumption.
Qed.

(* ---------- the current resolver (commits 5f4626e6, 6e969657) is RFC 6901 whenever the escapes are valid ---------- *)
Lemma step_impl_agree target t : step_impl target t = w_of_opt (step_rfc target t).
Proof.
  destruct target; try reflexivity. cbn [step_impl step_rfc].
  destruct (canonical_index t) as [i|]; [|reflexivity]. destruct (i <? Z.of_nat (length l))%Z; reflexivity.
Qed.

Lemma walk_w_agree toks : forall d, walk_w d toks = w_of_opt (walk step_rfc d toks).
Proof.
  induction toks as [|t r IH]; intros d; [reflexivity|].
  cbn [walk_w walk]. rewrite (step_impl_agree d t). destruct (step_rfc d t) as [x|]; cbn [w_of_opt]; [apply IH|reflexivity].
Qed.

Lemma pointer_rfc6901_partial d p : valid_escapes p = true -> resolve_pointer d p = w_of_opt (rfc6901 d p).
Proof.
  intros Hv. unfold resolve_pointer, rfc6901. destruct p as [|c p]; [reflexivity|].
  destruct (N.eqb c SLASH) eqn:E; [|reflexivity]. cbn [andb]. rewrite Hv. apply walk_w_agree.
Qed.

(* witnesses *)
Definition d_a123 : json := JObj [([97], JArr [JInt 1; JInt 2; JInt 3])].
Definition p_neg : str := [47;97;47;45;49].            (* /a/-1 *)
Definition d_10_20 : json := JArr [JInt 10; JInt 20].
Definition p_space : str := [47;32;49].                (* / 1 *)
Definition d_0_19 : json := JArr (map (fun n => JInt (Z.of_nat n)) (seq 0 20)).
Definition p_under : str := [47;49;95;48].             (* /1_0 *)
Definition d_tilde : json := JObj [([97;126;50], JInt 1)].
Definition p_tilde : str := [47;97;126;50].            (* /a~2 *)

(* sentinel witnesses: the int()-lenient resolver is not RFC 6901 *)
Lemma legacy_refuted_neg : resolve_pointer_int_lenient d_a123 p_neg <> of_opt (rfc6901 d_a123 p_neg).
Proof. vm_compute. discriminate. Qed.
Lemma legacy_refuted_space : resolve_pointer_int_lenient d_10_20 p_space <> of_opt (rfc6901 d_10_20 p_space).
Proof. vm_compute. discriminate. Qed.
Lemma legacy_refuted_under : resolve_pointer_int_lenient d_0_19 p_under <> of_opt (rfc6901 d_0_19 p_under).
Proof. vm_compute. discriminate. Qed.
Lemma legacy_refuted_regions : lenient_hit d_a123 p_neg = true /\ lenient_hit d_10_20 p_space = true /\ lenient_hit d_0_19 p_under = true.
Proof. repeat split; vm_compute; reflexivity. Qed.
(* ... and the current resolver IS, on the same witnesses *)
Lemma repaired_on_legacy_witnesses :
  resolve_pointer d_a123 p_neg = WUnres /\ resolve_pointer d_10_20 p_space = WUnres /\ resolve_pointer d_0_19 p_under = WUnres.
Proof. repeat split; vm_compute; reflexivity. Qed.

(* what remains outside RFC 6901: an invalid escape is taken literally *)
Lemma pointer_refuted_tilde : valid_escapes p_tilde = false /\ resolve_pointer d_tilde p_tilde <> w_of_opt (rfc6901 d_tilde p_tilde).
Proof. split; [reflexivity|]. vm_compute. discriminate. Qed.

(* an overlong canonical index is simply out of range (ValueError caught again since commit 6e969657) *)
Definition p_long : str := SLASH :: repeat 49 (N.to_nat 4301).      (* / followed by 4301 times the digit 1 *)
Lemma pointer_long_index_unresolvable :
  valid_escapes p_long = true /\ short_tokens p_long = false /\ resolve_pointer d_10_20 p_long = WUnres /\ rfc6901 d_10_20 p_long = None.
Proof. repeat split; vm_compute; reflexivity. Qed.

(* non-vacuity: a pointer with escapes and a canonical index inside the region *)
Example pointer_partial_nonvacuous :
  let d := JObj [([97;47;98], JArr [JInt 5; JObj [([109;126;110], JInt 9)]])] in
  let p := [47;97;126;49;98;47;49;47;109;126;48;110] in     (* /a~1b/1/m~0n *)
  valid_escapes p = true /\ resolve_pointer d p = WOk (JInt 9).
Proof. repeat split; vm_compute; reflexivity. Qed.

(* ---------- status-code filters ---------- *)
Definition key_alphabet : list N := digit_chars ++ [88; 120].
Definition all_keys : list str := product [key_alphabet; key_alphabet; key_alphabet].

Definition codes : list Z := map Z.of_nat (seq 0 1000).

Fixpoint zlist_eqb (a b : list Z) : bool :=
  match a, b with
  | [], [] => true
  | x :: a', y :: b' => Z.eqb x y && zlist_eqb a' b'
  | _, _ => false
  end.

Lemma zlist_eqb_eq a : forall b, zlist_eqb a b = true -> a = b.
Proof.
  induction a as [|x a IH]; intros [|y b] H; try discriminate; [reflexivity|].
  cbn in H. apply andb_true_iff in H. destruct H as [H1 H2]. apply Z.eqb_eq in H1. subst. f_equal. apply IH. exact H2.
Qed.

(* the expansion is exactly the increasing list of the codes the key matches *)
Definition key_check (k : str) : bool :=
  match expand_status_code k with
  | Some l => zlist_eqb l (filter (key_matches k) codes)
  | None => false
  end.

Lemma all_keys_check : forallb key_check all_keys = true.
Proof. vm_compute. reflexivity. Qed.

Lemma key_char_in c : key_char_ok c = true -> In c key_alphabet.
Proof.
  unfold key_char_ok, key_alphabet. intros H. apply in_or_app.
  apply orb_true_iff in H. destruct H as [H|H].
  - apply orb_true_iff in H. destruct H as [H|H].
    + left. apply is_digit_bounds in H. unfold digit_chars.
      assert (c = 48 \/ c = 49 \/ c = 50 \/ c = 51 \/ c = 52 \/ c = 53 \/ c = 54 \/ c = 55 \/ c = 56 \/ c = 57) as Hc by lia.
      cbn [In]. intuition.
    + right. apply N.eqb_eq in H. subst. left. reflexivity.
  - right. apply N.eqb_eq in H. subst. right. left. reflexivity.
Qed.

Lemma wf_key_in k : wf_key k = true -> In k all_keys.
Proof.
  destruct k as [|a [|b [|c [|? ?]]]]; try discriminate. cbn [wf_key]. intros H.
  apply andb_true_iff in H. destruct H as [H Hc]. apply andb_true_iff in H. destruct H as [Ha Hb].
  unfold all_keys. cbn [product]. apply in_flat_map. exists a. split; [apply key_char_in; exact Ha|].
  apply in_map. apply in_flat_map. exists b. split; [apply key_char_in; exact Hb|].
  apply in_map. apply in_flat_map. exists c. split; [apply key_char_in; exact Hc|]. left. reflexivity.
Qed.

Lemma key_matches_range k code : key_matches k code = true -> (0 <= code < 1000)%Z.
Proof.
  destruct k as [|a [|b [|c [|? ?]]]]; try discriminate. unfold key_matches. intros H.
  repeat (apply andb_true_iff in H; destruct H as [H ?]). lia.
Qed.

Lemma expand_spec k code : wf_key k = true ->
  exists l, expand_status_code k = Some l /\ existsb (Z.eqb code) l = key_matches k code.
Proof.
  intros Hk. pose proof (wf_key_in _ Hk) as Hin.
  pose proof (proj1 (forallb_forall _ _) all_keys_check _ Hin) as Hc. unfold key_check in Hc.
  destruct (expand_status_code k) as [l|]; [|discriminate]. exists l. split; [reflexivity|].
  apply zlist_eqb_eq in Hc. subst l. apply eq_iff_eq_true. rewrite existsb_exists. split.
  - intros [z [Hz He]]. apply Z.eqb_eq in He. subst z. apply filter_In in Hz. tauto.
  - intros Hm. exists code. split; [|apply Z.eqb_refl]. apply filter_In. split; [|exact Hm].
    apply key_matches_range in Hm. unfold codes. apply in_map_iff. exists (Z.to_nat code). split; [lia|apply in_seq; lia].
Qed.

Lemma match_status_spec k code : wf_key k = true -> match_status_code k code = Some (key_matches k code).
Proof. intros Hk. destruct (expand_spec k code Hk) as [l [He Hm]]. unfold match_status_code. rewrite He, Hm. reflexivity. Qed.

Lemma default_spec keys code : wf_keys keys = true ->
  default_status_code keys code = Some (forallb (fun k => str_eqb k s_default || negb (key_matches k code)) keys).
Proof.
  unfold default_status_code, wf_keys. intros H.
  assert (G : exists ls, all_some (map expand_status_code (filter (fun k => negb (str_eqb k s_default)) keys)) = Some ls
              /\ existsb (Z.eqb code) (concat ls) = negb (forallb (fun k => str_eqb k s_default || negb (key_matches k code)) keys)).
  { induction keys as [|k keys IH]; [exists []; split; reflexivity|].
    cbn [forallb] in H. apply andb_true_iff in H. destruct H as [Hk Hr]. destruct (IH Hr) as [ls [Hs He]].
    cbn [filter forallb]. destruct (str_eqb k s_default) eqn:D.
    - cbn [negb orb andb]. exists ls. split; assumption.
    - cbn [orb] in Hk. destruct (expand_spec k code Hk) as [l [El Em]].
      cbn [negb map all_some]. rewrite El, Hs. exists (l :: ls). split; [reflexivity|].
      cbn [concat]. rewrite existsb_app, Em, He. cbn [orb]. destruct (key_matches k code); reflexivity. }
  destruct G as [ls [Hs He]]. rewrite Hs, He, negb_involutive. reflexivity.
Qed.

Lemma status_filter_iff key keys code :
  (str_eqb key s_default || wf_key key) = true -> wf_keys keys = true ->
  response_filter key keys code = Some (spec_matches key keys code).
Proof.
  intros Hk Hks. unfold response_filter, spec_matches. destruct (str_eqb key s_default) eqn:D.
  - apply default_spec. exact Hks.
  - cbn [orb] in Hk. apply match_status_spec. exact Hk.
Qed.

Lemma bundle_sound lks keys code k :
  wf_keys lks = true -> wf_keys keys = true -> bundle_of lks keys code = Some k ->
  In k lks /\ spec_matches k keys code = true.
Proof.
  intros Hl Hks. induction lks as [|x lks IH]; [discriminate|].
  unfold wf_keys in Hl. cbn [forallb] in Hl. apply andb_true_iff in Hl. destruct Hl as [Hx Hr].
  cbn [bundle_of]. rewrite (status_filter_iff x keys code Hx Hks).
  destruct (spec_matches x keys code) eqn:S.
  - intros H. inversion H. subst. split; [left; reflexivity|exact S].
  - intros H. destruct (IH Hr H) as [Hin Hm]. split; [right; exact Hin|exact Hm].
Qed.

(* the wiring of create_state_machine: link bundles are filtered against every documented key *)
Lemma outgoing_in_documented op k : In k (outgoing_keys op) -> In k (documented_keys op).
Proof.
  unfold outgoing_keys, documented_keys. intros H. apply in_flat_map in H. destruct H as [[k' n] [Hin Hr]].
  cbn [fst snd] in Hr. apply repeat_spec in Hr. subst. apply in_map_iff. exists (k', n). split; [reflexivity|exact Hin].
Qed.

Lemma wf_keys_outgoing op : wf_keys (documented_keys op) = true -> wf_keys (outgoing_keys op) = true.
Proof.
  unfold wf_keys. intros H. apply forallb_forall. intros k Hk.
  exact (proj1 (forallb_forall _ _) H k (outgoing_in_documented _ _ Hk)).
Qed.

Lemma machine_bundle_sound op code k :
  wf_keys (documented_keys op) = true -> machine_bundle op code = Some k ->
  In k (outgoing_keys op) /\ spec_matches k (documented_keys op) code = true.
Proof. intros Hw H. exact (bundle_sound _ _ _ _ (wf_keys_outgoing _ Hw) Hw H). Qed.

(* in particular: a documented key without links still keeps the response out of the default bundle *)
Lemma documented_blocks_default op code k n :
  wf_keys (documented_keys op) = true -> In (k, n) op -> str_eqb k s_default = false -> key_matches k code = true ->
  machine_bundle op code <> Some s_default.
Proof.
  intros Hw Hin Hd Hm H. destruct (machine_bundle_sound _ _ _ Hw H) as [_ Hs].
  unfold spec_matches in Hs. change (str_eqb s_default s_default) with true in Hs. cbn iota in Hs.
  assert (Hk : In k (documented_keys op)) by (apply in_map_iff; exists (k, n); split; [reflexivity|exact Hin]).
  pose proof (proj1 (forallb_forall _ _) Hs k Hk) as Hf. cbn beta in Hf. rewrite Hd, Hm in Hf. discriminate.
Qed.

Example machine_bundle_nonvacuous :
  let op := [([50;48;49], 1%nat); ([52;48;57], 0%nat); (s_default, 1%nat)] in      (* 201: link, 409: none, default: link *)
  wf_keys (documented_keys op) = true /\ machine_bundle op 409 = None /\ machine_bundle op 500 = Some s_default
  /\ machine_bundle op 201 = Some [50;48;49]
  /\ bundle_of (outgoing_keys op) (outgoing_keys op) 409 = Some s_default.     (* what filtering against the link keys only would do *)
Proof. repeat split; vm_compute; reflexivity. Qed.

Example status_nonvacuous :
  wf_keys [[50;48;49]; [50;88;88]; s_default] = true /\
  response_filter [50;88;88] [[50;48;49]; [50;88;88]; s_default] 204 = Some true /\
  response_filter s_default [[50;48;49]; [50;88;88]; s_default] 204 = Some false /\
  response_filter s_default [[50;48;49]; [50;88;88]; s_default] 404 = Some true /\
  bundle_of [[50;88;88]; [50;48;49]] [[50;48;49]; [50;88;88]; s_default] 201 = Some [50;88;88].
Proof. repeat split; vm_compute; reflexivity. Qed.


(* ---------- witnesses about expressions ---------- *)
Definition rx_any : str -> bool := fun _ => true.
Definition rx_none : str -> str -> option str := fun _ _ => None.
Definition cx0 : ctx :=
  {| c_url := [117]; c_method := [103;101;116]; c_status := 200%Z;
     c_query := Some [([97;46;98], PJ (JStr [118]))]; c_path := None; c_headers := None;
     c_body := VNotSet; r_headers := []; r_body := Some (JObj [([105;100], JInt 7); ([120;125;121], JInt 5)]) |}.

Definition e_url_x : str := [36;117;114;108;46;120].                         (* $url.x *)
Definition e_a_hash_b : str := [97;35;98].                                   (* a#b *)
Definition e_dotted : rexpr := RReq LQuery [97;46;98] None.                  (* $request.query.a.b *)
Definition e_ptr_rb : rexpr := RRespBody (Some [47;120;125;121]).            (* $response.body#/x}y *)
Definition t_emb_body : list titem := [TText [73;68;95]; TEmb (RRespBody None)].   (* ID_{$response.body} *)

(* a string in the grammar (constant text) whose value is not what it denotes: everything after # is dropped *)
Lemma eval_refuted_hash_text :
  forallb gitem_ok [TText e_a_hash_b] = true /\
  eval_str rx_any rx_none cx0 (print_tpl [TText e_a_hash_b]) = OVal (VJ (JStr [97])).
Proof. split; vm_compute; reflexivity. Qed.

(* ABNF-valid expressions that are rejected *)
Lemma eval_refuted_dotted_name :
  abnf_ok e_dotted = true /\ denote rx_none cx0 e_dotted = OVal (VJ (JStr [118])) /\
  eval_str rx_any rx_none cx0 (print e_dotted) = OParseErr ErrExpr.
Proof. repeat split; vm_compute; reflexivity. Qed.

Lemma eval_refuted_pointer_brace :
  abnf_ok e_ptr_rb = true /\ denote rx_none cx0 e_ptr_rb = OVal (VJ (JInt 5)) /\
  eval_str rx_any rx_none cx0 (print e_ptr_rb) = OParseErr ErrExpr.
Proof. repeat split; vm_compute; reflexivity. Qed.

Lemma eval_refuted_embedded_body :
  forallb gitem_ok t_emb_body = true /\ eval_str rx_any rx_none cx0 (print_tpl t_emb_body) = OParseErr ErrExpr.
Proof. split; vm_compute; reflexivity. Qed.

(* a string outside the grammar that is accepted *)
Lemma text_ok_head c s : text_ok (c :: s) = true -> c <> DOLLAR /\ c <> LB.
Proof.
  unfold text_ok. cbn [forallb]. intros H. apply andb_true_iff in H. destruct H as [H _].
  unfold mem in H. cbn [existsb] in H. split; intros ->; discriminate.
Qed.

Lemma url_x_not_in_grammar : ~ in_grammar e_url_x.
Proof.
  intros [[e [_ H]]|[t [Hok H]]].
  - destruct e as [| | |l name rx|p|name rx|p]; try discriminate H.
  - destruct t as [|i t]; [discriminate H|]. cbn [forallb] in Hok. apply andb_true_iff in Hok. destruct Hok as [Hi _].
    destruct i as [s|e].
    + destruct s as [|c s]; [discriminate Hi|]. apply text_ok_head in Hi. cbn in H. inversion H as [Hc]. destruct Hi as [Hi _]. apply Hi. symmetry. exact Hc.
    + cbn in H. discriminate H.
Qed.

Lemma rejects_malformed_refuted :
  ~ in_grammar e_url_x /\ parse rx_any e_url_x = Some (POk [NUrl; NString [46]; NString [120]]).
Proof. split; [exact url_x_not_in_grammar|vm_compute; reflexivity]. Qed.

(* ---------- link values and the derived step input ---------- *)
Lemma keep_sendable_in d n v : In (n, v) (keep_sendable d) -> v <> VUnres /\ v <> VJ JNull.
Proof.
  induction d as [|[m x] d IH]; [intros []|]. cbn [keep_sendable].
  destruct (sendable x) as [w|] eqn:S; [|exact IH]. intros [H|H]; [|exact (IH H)]. inversion H. subst.
  destruct x as [u|]; [|discriminate]. destruct u as [j| | | |r]; try discriminate; cbn in S.
  - destruct j; inversion S; split; discriminate.
  - inversion S. split; discriminate.
  - inversion S. split; discriminate.
  - inversion S. split; discriminate.
Qed.

Lemma kwargs_never_unresolvable e c d n v :
  In (c, d) (kwargs_of e) -> In (n, v) d -> v <> VUnres /\ v <> VJ JNull.
Proof.
  unfold kwargs_of. intros Hc Hn. apply in_map_iff in Hc. destruct Hc as [[c' d'] [Heq _]]. inversion Heq. subst.
  exact (keep_sendable_in _ _ _ Hn).
Qed.

Lemma assoc_get_in {A} k (l : list (str * A)) v : assoc_get k l = Some v -> In (k, v) l.
Proof.
  induction l as [|[k' v'] l IH]; [discriminate|]. cbn [assoc_get]. destruct (str_eqb k k') eqn:E.
  - intros H. inversion H. apply str_eqb_spec in E. subst. left. reflexivity.
  - intros H. right. exact (IH H).
Qed.

Lemma assoc_set_in {A} k (w : A) l n v : In (n, v) (assoc_set k w l) -> (n, v) = (k, w) \/ In (n, v) l.
Proof.
  induction l as [|[k' v'] l IH]; cbn [assoc_set].
  - intros [H|[]]. left. symmetry. exact H.
  - destruct (str_eqb k k').
    + intros [H|H]; [left; symmetry; exact H|right; right; exact H].
    + intros [H|H]; [right; left; exact H|]. destruct (IH H) as [G|G]; [left; exact G|right; right; exact G].
Qed.

Lemma assoc_update_in {A} (upd base : list (str * A)) n v :
  In (n, v) (assoc_update base upd) -> In (n, v) base \/ In (n, v) upd.
Proof.
  unfold assoc_update. revert base. induction upd as [|[k w] upd IH]; intros base H; [left; exact H|].
  cbn [fold_left] in H. destruct (IH _ H) as [G|G].
  - cbn [fst snd] in G. destruct (assoc_set_in _ _ _ _ _ G) as [E|E]; [right; left; symmetry; exact E|left; exact E].
  - right. right. exact G.
Qed.

Lemma unresolvable_never_sent_params kw c gen d n v :
  (forall c' d' n' v', In (c', d') kw -> In (n', v') d' -> v' <> VUnres) ->
  (forall excl g m w, gen excl = Some g -> In (m, w) g -> w <> VUnres) ->
  final_container kw c gen = Some d -> In (n, v) d -> v <> VUnres.
Proof.
  intros Hkw Hgen. unfold final_container, parameters_value.
  match goal with |- context [match ?X with _ => _ end] => destruct X as [ex|] eqn:G end.
  - apply assoc_get_in in G. destruct ex as [|x ex].
    + intros H Hin. exact (Hgen _ _ _ _ H Hin).
    + destruct (gen (map fst (x :: ex))) as [new|] eqn:N; intros H Hin; inversion H; subst.
      * destruct (assoc_update_in _ _ _ _ Hin) as [K|K]; [exact (Hkw _ _ _ _ G K)|exact (Hgen _ _ _ _ N K)].
      * exact (Hkw _ _ _ _ G Hin).
  - intros H Hin. exact (Hgen _ _ _ _ H Hin).
Qed.

Lemma unresolvable_never_sent rx_ok rx_extract cx l c gen d n v :
  (forall excl g m w, gen excl = Some g -> In (m, w) g -> w <> VUnres) ->
  final_container (kwargs_of (extract_parameters rx_ok rx_extract cx l)) c gen = Some d -> In (n, v) d -> v <> VUnres.
Proof.
  intros Hgen. apply unresolvable_never_sent_params; [|exact Hgen].
  intros c' d' n' v' H1 H2. exact (proj1 (kwargs_never_unresolvable _ _ _ _ _ H1 H2)).
Qed.

Lemma unresolvable_never_sent_body merge xb g : g <> VUnres -> final_body merge (body_ready xb) g <> VUnres.
Proof.
  intros Hg. unfold final_body. destruct (body_ready xb) as [new|] eqn:R; [|exact Hg].
  assert (Hn : new <> VUnres).
  { unfold body_ready in R. destruct xb as [[v|]|]; try discriminate. destruct (is_unres v) eqn:U; [discriminate|].
    inversion R. subst. intros ->. discriminate. }
  destruct merge; [|exact Hn]. destruct g as [[]| | | |?]; try exact Hn. destruct new as [[]| | | |?]; try exact Hn. discriminate.
Qed.

Lemma unresolved_body_is_generated merge g : final_body merge (body_ready (Some (XOk VUnres))) g = g
  /\ final_body merge (body_ready (Some XErr)) g = g /\ final_body merge (body_ready None) g = g.
Proof. repeat split. Qed.

(* generated names different from n leave the link value in place *)
Lemma assoc_get_none_set {A} n k (w : A) l : assoc_get n l = None -> str_eqb n k = false -> assoc_get n (assoc_set k w l) = None.
Proof. intros H E. rewrite assoc_get_set_other by exact E. exact H. Qed.

Lemma assoc_update_keep {A} (upd base : list (str * A)) n v :
  assoc_get n base = Some v -> assoc_get n upd = None -> assoc_get n (assoc_update base upd) = Some v.
Proof.
  unfold assoc_update. revert base. induction upd as [|[k w] upd IH]; intros base Hb Hu; [exact Hb|].
  cbn [assoc_get] in Hu. destruct (str_eqb n k) eqn:E; [discriminate|].
  cbn [fold_left fst snd]. apply IH; [|exact Hu]. rewrite assoc_get_set_other by exact E. exact Hb.
Qed.

Lemma link_values_override_generated kw c d n v gen :
  assoc_get c kw = Some d -> assoc_get n d = Some v ->
  (forall g, gen (map fst d) = Some g -> assoc_get n g = None) ->
  exists f, final_container kw c gen = Some f /\ assoc_get n f = Some v.
Proof.
  intros Hc Hn Hg. unfold final_container, parameters_value.
  match goal with |- context [match ?X with _ => _ end] => change X with (assoc_get c kw) end. rewrite Hc.
  destruct d as [|x d]; [discriminate|].
  destruct (gen (map fst (x :: d))) as [new|] eqn:N.
  - exists (assoc_update (x :: d) new). split; [reflexivity|]. apply assoc_update_keep; [exact Hn|exact (Hg _ eq_refl)].
  - exists (x :: d). split; [reflexivity|exact Hn].
Qed.

(* body: replaced, or merged with the link's members winning *)
Lemma assoc_update_wins {A} (upd : list (str * A)) : forall base k w,
  NoDup (map fst upd) -> assoc_get k upd = Some w -> assoc_get k (assoc_update base upd) = Some w.
Proof.
  unfold assoc_update. induction upd as [|[k1 w1] upd IH]; intros base k w Hnd Hk; [discriminate|].
  cbn [map fst] in Hnd. inversion Hnd as [|? ? Hnotin Hnd']. subst.
  cbn [assoc_get] in Hk. cbn [fold_left fst snd]. destruct (str_eqb k k1) eqn:E.
  - inversion Hk. subst. apply str_eqb_spec in E. subst k.
    assert (Hnone : assoc_get k1 upd = None).
    { destruct (assoc_get k1 upd) eqn:G; [|reflexivity]. apply assoc_get_in in G. exfalso. apply Hnotin.
      apply in_map_iff. exists (k1, a). split; [reflexivity|exact G]. }
    apply (assoc_update_keep upd (assoc_set k1 w base) k1 w); [apply assoc_get_set_same|exact Hnone].
  - apply IH; assumption.
Qed.

Lemma body_override merge new g :
  is_unres new = false ->
  (merge = false -> final_body merge (body_ready (Some (XOk new))) g = new) /\
  (forall gm nm k w, merge = true -> g = VJ (JObj gm) -> new = VJ (JObj nm) -> NoDup (map fst nm) -> assoc_get k nm = Some w ->
     exists fm, final_body merge (body_ready (Some (XOk new))) g = VJ (JObj fm) /\ assoc_get k fm = Some w) /\
  (merge = true -> (forall gm nm, ~ (g = VJ (JObj gm) /\ new = VJ (JObj nm))) -> final_body merge (body_ready (Some (XOk new))) g = new).
Proof.
  intros U. unfold body_ready. rewrite U. repeat split.
  - intros ->. reflexivity.
  - intros gm nm k w -> -> -> Hnd Hk. exists (assoc_update gm nm). split; [reflexivity|]. apply assoc_update_wins; assumption.
  - intros -> H. cbn [final_body]. destruct g as [[]| | | |?]; try reflexivity. destruct new as [[]| | | |?]; try reflexivity.
    exfalso. apply (H kvs kvs0). split; reflexivity.
Qed.

(* the header container is case-insensitive but exclusion from generation is not *)
Definition kw_case : list (str * dict) := [(s_headers, [([120;45;116], VJ (JStr [80;79;83;84]))])].    (* x-t: POST *)
Definition gen_case : list str -> option dict :=
  fun excl => Some (filter (fun kv => negb (in_strs (fst kv) excl)) [([88;45;84], VJ (JStr [103;104]))]).   (* X-T: gh *)

Lemma override_refuted_header_case :
  (forall excl g n, gen_case excl = Some g -> In n excl -> assoc_get n g = None) /\
  exists f, final_headers kw_case gen_case = Some f /\ ci_lookup [120;45;116] f = Some (VJ (JStr [103;104])).
Proof.
  split.
  - intros excl g n H Hin. unfold gen_case in H. inversion H. subst. cbn [filter fst].
    destruct (in_strs [88;45;84] excl) eqn:E; cbn [negb]; [reflexivity|]. cbn [assoc_get].
    destruct (str_eqb n [88;45;84]) eqn:E2; [|reflexivity]. apply str_eqb_spec in E2. subst n.
    unfold in_strs in E. exfalso. assert (existsb (str_eqb [88;45;84]) excl = true); [|congruence].
    apply existsb_exists. exists [88;45;84]. split; [exact Hin|reflexivity].
  - eexists. split; vm_compute; reflexivity.
Qed.

Example override_nonvacuous :
  exists f, final_container [([113], [([97], VJ (JInt 1))])] [113] (fun _ => Some [([98], VJ (JInt 2))]) = Some f
            /\ assoc_get [97] f = Some (VJ (JInt 1)) /\ assoc_get [98] f = Some (VJ (JInt 2)).
Proof. eexists. repeat split. Qed.


(* ---------- the lexer on runs of ordinary characters ---------- *)
Lemma is_stop_false c : is_stop c = false ->
  N.eqb c DOLLAR = false /\ N.eqb c DOT = false /\ N.eqb c LB = false /\ N.eqb c RB = false /\ N.eqb c HASH = false.
Proof.
  unfold is_stop, mem. cbn [existsb]. intros H.
  repeat (apply orb_false_iff in H; destruct H as [? H]). repeat split; assumption.
Qed.

Lemma lex_fresh_str c s pos : is_stop c = false -> lex (c :: s) pos None = lex s (S pos) (Some (TStr, [c])).
Proof. intros H. destruct (is_stop_false _ H) as [H1 [H2 [H3 [H4 H5]]]]. cbn [lex]. rewrite H1, H2, H3, H4, H5. reflexivity. Qed.

Lemma lex_step_cont ty acc x s pos : stops ty x = false ->
  lex (x :: s) pos (Some (ty, acc)) = lex s (S pos) (Some (ty, x :: acc)).
Proof. intros H. cbn [lex]. rewrite H. reflexivity. Qed.

Lemma lex_step_stop ty acc c rest pos : stops ty c = true ->
  lex (c :: rest) pos (Some (ty, acc)) = tok ty (rev acc) (pos - 1) :: lex (c :: rest) pos None.
Proof. intros H. cbn [lex]. rewrite H. reflexivity. Qed.

Lemma lex_run_end ty s : forall pos acc, forallb (fun c => negb (stops ty c)) s = true ->
  lex s pos (Some (ty, acc)) = [tok ty (rev acc ++ s) (pos + length s - 1)].
Proof.
  induction s as [|c s IH]; intros pos acc H.
  - cbn [lex length]. rewrite app_nil_r, Nat.add_0_r. reflexivity.
  - cbn [forallb] in H. apply andb_true_iff in H. destruct H as [Hc Hs]. apply negb_true_iff in Hc.
    rewrite (lex_step_cont _ _ _ _ _ Hc). rewrite (IH _ _ Hs). cbn [rev length]. rewrite <- app_assoc. cbn [app].
    replace (S pos + length s - 1)%nat with (pos + S (length s) - 1)%nat by lia. reflexivity.
Qed.

Lemma lex_run_stop ty s : forall pos acc c rest, forallb (fun c => negb (stops ty c)) s = true -> stops ty c = true ->
  lex (s ++ c :: rest) pos (Some (ty, acc)) = tok ty (rev acc ++ s) (pos + length s - 1) :: lex (c :: rest) (pos + length s) None.
Proof.
  induction s as [|x s IH]; intros pos acc c rest H Hc.
  - cbn [app length]. rewrite app_nil_r, !Nat.add_0_r. apply lex_step_stop. exact Hc.
  - cbn [forallb] in H. apply andb_true_iff in H. destruct H as [Hx Hs]. apply negb_true_iff in Hx.
    cbn [app]. rewrite (lex_step_cont _ _ _ _ _ Hx). rewrite (IH _ _ _ _ Hs Hc). cbn [rev length]. rewrite <- app_assoc. cbn [app].
    replace (S pos + length s)%nat with (pos + S (length s))%nat by lia.
    replace (pos + S (length s) - 1)%nat with (pos + S (length s) - 1)%nat by lia. reflexivity.
Qed.

Lemma no_stop_run ty s : ty <> TPtr -> no_stop s = true -> forallb (fun c => negb (stops ty c)) s = true.
Proof. intros Hty H. unfold no_stop in H. destruct ty; try exact H. congruence. Qed.

Lemma no_rb_run s : no_rb s = true -> forallb (fun c => negb (stops TPtr c)) s = true.
Proof. intros H. exact H. Qed.

Lemma lex_fresh_hash s pos : lex (HASH :: s) pos None = lex s (S pos) (Some (TPtr, [HASH])).
Proof. reflexivity. Qed.

Lemma lex_regex_prefix pat pos :
  lex (114 :: 101 :: 103 :: 101 :: 120 :: 58 :: pat) pos (Some (TPtr, [HASH]))
  = lex pat (S (S (S (S (S (S pos)))))) (Some (TPtr, [58; 120; 101; 103; 101; 114; HASH])).
Proof. reflexivity. Qed.

(* name [#regex:pattern] from a token boundary *)
Definition rx_tokens (rx : option str) (e : nat) : list token :=
  match rx with Some pat => [tok TPtr (s_regex ++ pat) (e + 7 + length pat)%nat] | None => [] end.

Lemma lex_name_rx rx_ok name rx k : name_ok name = true -> rx_region rx_ok rx = true ->
  lex (name ++ print_rx rx) k None = tok TStr name (k + length name - 1) :: rx_tokens rx (k + length name - 1)%nat.
Proof.
  intros Hn Hr. destruct name as [|c name]; [discriminate|]. unfold name_ok, no_stop in Hn. cbn [forallb] in Hn.
  apply andb_true_iff in Hn. destruct Hn as [Hc Hs]. apply negb_true_iff in Hc.
  cbn [app]. rewrite (lex_fresh_str _ _ _ Hc). destruct rx as [pat|]; cbn [print_rx rx_tokens].
  - unfold rx_region in Hr. apply andb_true_iff in Hr. destruct Hr as [Hp _].
    unfold s_regex. cbn [app]. rewrite (lex_run_stop TStr name (S k) [c] HASH); [|exact Hs|reflexivity].
    cbn [rev app length]. replace (S k + length name - 1)%nat with (k + S (length name) - 1)%nat by lia. f_equal.
    rewrite lex_fresh_hash, lex_regex_prefix.
    rewrite (lex_run_end TPtr pat _ _ (no_rb_run _ Hp)). cbn [rev app].
    replace (S (S (S (S (S (S (S (S k + length name))))))) + length pat - 1)%nat with (k + S (length name) - 1 + 7 + length pat)%nat by lia.
    reflexivity.
  - rewrite app_nil_r. rewrite (lex_run_end TStr name _ _ Hs). cbn [rev app length].
    replace (S k + length name - 1)%nat with (k + S (length name) - 1)%nat by lia. reflexivity.
Qed.

Lemma skipn_length_app {A} (a b : list A) : skipn (length a) (a ++ b) = b.
Proof. induction a as [|x a IH]; [reflexivity|exact IH]. Qed.

Lemma take_extractor_printed rx_ok pre name rx e e2 :
  rx_region rx_ok rx = true -> S e = (length pre + length name)%nat ->
  take_extractor rx_ok (pre ++ name ++ print_rx rx) (rx_tokens rx e2) e = POk (rx, []).
Proof.
  intros Hr He. unfold take_extractor. rewrite He, app_assoc, <- app_length, skipn_length_app.
  destruct rx as [pat|]; cbn [print_rx rx_tokens]; [|reflexivity].
  unfold rx_region in Hr. apply andb_true_iff in Hr. destruct Hr as [_ Hok].
  unfold s_regex. cbn [app]. change (N.eqb 35 RB) with false. cbn [tv tok]. cbn [starts_with N.eqb Pos.eqb andb skipn].
  rewrite Hok. reflexivity.
Qed.

(* ---------- the parser reads a printed expression back ---------- *)
Arguments take_extractor : simpl never.

Lemma parse_param_printed rx_ok pre name rx (mk : str -> option str -> node) k :
  name_ok name = true -> rx_region rx_ok rx = true -> S k = length pre ->
  parse_param rx_ok (pre ++ name ++ print_rx rx)
    (tok TDot [DOT] k :: tok TStr name (S k + length name - 1) :: rx_tokens rx (S k + length name - 1)) mk
  = POk (mk name rx, []).
Proof.
  intros Hn Hr Hk. unfold parse_param. cbn [skip_dot is_ty tkind tok take_string tend tv].
  rewrite (take_extractor_printed rx_ok pre name rx _ _ Hr); [reflexivity|].
  destruct name; [discriminate|]. cbn [length]. lia.
Qed.

Lemma parse_req_param rx_ok l name rx : name_ok name = true -> rx_region rx_ok rx = true ->
  parse rx_ok (print (RReq l name rx)) = Some (POk [NReq (loc_str l) name rx]).
Proof.
  intros Hn Hr. unfold parse, tokenize.
  destruct l; cbn [print loc_str].
  - set (pre := s_request ++ [DOT] ++ s_query ++ [DOT]).
    replace (s_request ++ [DOT] ++ s_query ++ [DOT] ++ name ++ print_rx rx) with (pre ++ name ++ print_rx rx)
      by (unfold pre; rewrite <- !app_assoc; reflexivity).
    assert (L : lex (pre ++ name ++ print_rx rx) 0 None =
                tok TVar s_request 7 :: tok TDot [DOT] 8 :: tok TStr s_query 13 :: tok TDot [DOT] 14 :: lex (name ++ print_rx rx) 15 None) by reflexivity.
    rewrite L, (lex_name_rx rx_ok _ _ _ Hn Hr).
    assert (Len : forall t, length (t :: rx_tokens rx (15 + length name - 1)) = (1 + length (rx_tokens rx 0))%nat) by (intros; destruct rx; reflexivity).
    cbn [length]. cbn [parse_loop tkind tok].
    unfold parse_variable. cbn [tv tok]. change (str_eqb s_request s_url) with false. change (str_eqb s_request s_method) with false.
    change (str_eqb s_request s_status) with false. change (str_eqb s_request s_request) with true. cbn iota.
    unfold parse_request. cbn [skip_dot is_ty tkind tok tv]. change (in_strs s_query [s_query; s_path; s_header]) with true. cbn iota.
    rewrite (parse_param_printed rx_ok pre name rx (NReq s_query) 14 Hn Hr eq_refl).
    destruct rx; reflexivity.
  - set (pre := s_request ++ [DOT] ++ s_path ++ [DOT]).
    replace (s_request ++ [DOT] ++ s_path ++ [DOT] ++ name ++ print_rx rx) with (pre ++ name ++ print_rx rx)
      by (unfold pre; rewrite <- !app_assoc; reflexivity).
    assert (L : lex (pre ++ name ++ print_rx rx) 0 None =
                tok TVar s_request 7 :: tok TDot [DOT] 8 :: tok TStr s_path 12 :: tok TDot [DOT] 13 :: lex (name ++ print_rx rx) 14 None) by reflexivity.
    rewrite L, (lex_name_rx rx_ok _ _ _ Hn Hr).
    cbn [length]. cbn [parse_loop tkind tok].
    unfold parse_variable. cbn [tv tok]. change (str_eqb s_request s_url) with false. change (str_eqb s_request s_method) with false.
    change (str_eqb s_request s_status) with false. change (str_eqb s_request s_request) with true. cbn iota.
    unfold parse_request. cbn [skip_dot is_ty tkind tok tv]. change (in_strs s_path [s_query; s_path; s_header]) with true. cbn iota.
    rewrite (parse_param_printed rx_ok pre name rx (NReq s_path) 13 Hn Hr eq_refl).
    destruct rx; reflexivity.
  - set (pre := s_request ++ [DOT] ++ s_header ++ [DOT]).
    replace (s_request ++ [DOT] ++ s_header ++ [DOT] ++ name ++ print_rx rx) with (pre ++ name ++ print_rx rx)
      by (unfold pre; rewrite <- !app_assoc; reflexivity).
    assert (L : lex (pre ++ name ++ print_rx rx) 0 None =
                tok TVar s_request 7 :: tok TDot [DOT] 8 :: tok TStr s_header 14 :: tok TDot [DOT] 15 :: lex (name ++ print_rx rx) 16 None) by reflexivity.
    rewrite L, (lex_name_rx rx_ok _ _ _ Hn Hr).
    cbn [length]. cbn [parse_loop tkind tok].
    unfold parse_variable. cbn [tv tok]. change (str_eqb s_request s_url) with false. change (str_eqb s_request s_method) with false.
    change (str_eqb s_request s_status) with false. change (str_eqb s_request s_request) with true. cbn iota.
    unfold parse_request. cbn [skip_dot is_ty tkind tok tv]. change (in_strs s_header [s_query; s_path; s_header]) with true. cbn iota.
    rewrite (parse_param_printed rx_ok pre name rx (NReq s_header) 15 Hn Hr eq_refl).
    destruct rx; reflexivity.
Qed.

Lemma parse_resp_header rx_ok name rx : name_ok name = true -> rx_region rx_ok rx = true ->
  parse rx_ok (print (RRespHeader name rx)) = Some (POk [NRespHeader name rx]).
Proof.
  intros Hn Hr. unfold parse, tokenize. cbn [print].
  set (pre := s_response ++ [DOT] ++ s_header ++ [DOT]).
  replace (s_response ++ [DOT] ++ s_header ++ [DOT] ++ name ++ print_rx rx) with (pre ++ name ++ print_rx rx)
    by (unfold pre; rewrite <- !app_assoc; reflexivity).
  assert (L : lex (pre ++ name ++ print_rx rx) 0 None =
              tok TVar s_response 8 :: tok TDot [DOT] 9 :: tok TStr s_header 15 :: tok TDot [DOT] 16 :: lex (name ++ print_rx rx) 17 None) by reflexivity.
  rewrite L, (lex_name_rx rx_ok _ _ _ Hn Hr).
  cbn [length]. cbn [parse_loop tkind tok].
  unfold parse_variable. cbn [tv tok]. change (str_eqb s_response s_url) with false. change (str_eqb s_response s_method) with false.
  change (str_eqb s_response s_status) with false. change (str_eqb s_response s_request) with false.
  change (str_eqb s_response s_response) with true. cbn iota.
  unfold parse_response. cbn [skip_dot is_ty tkind tok tv]. change (str_eqb s_header s_header) with true. cbn iota.
  rewrite (parse_param_printed rx_ok pre name rx NRespHeader 16 Hn Hr eq_refl).
  destruct rx; reflexivity.
Qed.

Lemma parse_body_ptr rx_ok (resp : bool) p : no_rb p = true ->
  parse rx_ok (print (if resp then RRespBody (Some p) else RReqBody (Some p)))
  = Some (POk [if resp then NRespBody (Some (HASH :: p)) else NReqBody (Some (HASH :: p))]).
Proof.
  intros Hp. unfold parse, tokenize. destruct resp; cbn [print print_ptr].
  - assert (L : lex (s_response ++ [DOT] ++ s_body ++ HASH :: p) 0 None =
                tok TVar s_response 8 :: tok TDot [DOT] 9 :: tok TStr s_body 13 :: lex p 15 (Some (TPtr, [HASH]))) by reflexivity.
    rewrite L, (lex_run_end TPtr p _ _ (no_rb_run _ Hp)). reflexivity.
  - assert (L : lex (s_request ++ [DOT] ++ s_body ++ HASH :: p) 0 None =
                tok TVar s_request 7 :: tok TDot [DOT] 8 :: tok TStr s_body 12 :: lex p 14 (Some (TPtr, [HASH]))) by reflexivity.
    rewrite L, (lex_run_end TPtr p _ _ (no_rb_run _ Hp)). reflexivity.
Qed.

Lemma parse_print rx_ok e : simple_expr rx_ok e = true -> parse rx_ok (print e) = Some (POk [node_of e]).
Proof.
  destruct e as [| | |l name rx|p|name rx|p]; cbn [simple_expr]; intros H; try reflexivity.
  - apply andb_true_iff in H. destruct H as [Hn Hr]. exact (parse_req_param rx_ok l name rx Hn Hr).
  - destruct p as [p|]; [|reflexivity]. exact (parse_body_ptr rx_ok false p H).
  - apply andb_true_iff in H. destruct H as [Hn Hr]. exact (parse_resp_header rx_ok name rx Hn Hr).
  - destruct p as [p|]; [|reflexivity]. exact (parse_body_ptr rx_ok true p H).
Qed.

Lemma extract_agree rx_extract rx v : apply_extractor rx_extract rx v = denote_extract rx_extract rx v.
Proof.
  unfold apply_extractor, denote_extract. destruct rx as [pat|]; [|reflexivity]. destruct v; try reflexivity.
  destruct (rx_extract pat s) as [[|c g]|]; reflexivity.
Qed.

Lemma eval_node_denote rx_extract cx e : ptr_strict cx e = true ->
  eval_node rx_extract cx (node_of e) = denote rx_extract cx e.
Proof.
  intros Hp. destruct e as [| | |l name rx|p|name rx|p]; cbn [node_of]; try reflexivity.
  - destruct l; cbn [eval_node denote loc_str];
      [change (str_eqb s_query s_query) with true; change (str_eqb s_query s_header) with false
      |change (str_eqb s_path s_query) with false; change (str_eqb s_path s_path) with true; change (str_eqb s_path s_header) with false
      |change (str_eqb s_header s_query) with false; change (str_eqb s_header s_path) with false; change (str_eqb s_header s_header) with true];
      cbn iota;
      unfold source_param;
      match goal with |- match ?X with _ => _ end = _ => destruct X as [[[]|]|]; try reflexivity; apply extract_agree end.
  - destruct p as [p|]; cbn [option_map eval_node denote denote_ptr].
    + cbn [ptr_strict] in Hp. destruct (c_body cx) as [doc| | | |?]; try reflexivity.
      cbn [tl]. rewrite (pointer_rfc6901_partial _ _ Hp). destruct (rfc6901 doc p); reflexivity.
    + destruct (c_body cx); reflexivity.
  - cbn [eval_node denote]. destruct (assoc_get (lower_ascii name) (r_headers cx)) as [[|v vs]|]; try reflexivity. apply extract_agree.
  - cbn [eval_node denote]. destruct (r_body cx) as [doc|] eqn:B; [|reflexivity]. destruct p as [p|]; cbn [option_map denote_ptr]; [|reflexivity].
    cbn [ptr_strict] in Hp. rewrite B in Hp.
    cbn [tl]. rewrite (pointer_rfc6901_partial _ _ Hp). destruct (rfc6901 doc p); reflexivity.
Qed.

Lemma eval_denotes_partial rx_ok rx_extract cx e :
  simple_expr rx_ok e = true -> ptr_strict cx e = true ->
  eval_str rx_ok rx_extract cx (print e) = denote rx_extract cx e.
Proof.
  intros Hs Hp. unfold eval_str. rewrite (parse_print rx_ok e Hs). cbn [eval_nodes].
  rewrite (eval_node_denote rx_extract cx e Hp). destruct (denote rx_extract cx e) as [v| |]; reflexivity.
Qed.

(* non-vacuity: an expression with a regex extractor and one with an escaped pointer *)
Definition rx_ok1 : str -> bool := fun p => str_eqb p [40;46;41].     (* (.) *)
Definition rx_ex1 : str -> str -> option str := fun _ s => match s with c :: _ => Some [c] | [] => None end.
Definition cx1 : ctx :=
  {| c_url := [117]; c_method := [103;101;116]; c_status := 201%Z;
     c_query := Some [([113], PJ (JStr [97;98]))]; c_path := None; c_headers := None;
     c_body := VNotSet; r_headers := []; r_body := Some (JObj [([97;47;98], JArr [JInt 4; JInt 5])]) |}.
Example eval_denotes_nonvacuous :
  simple_expr rx_ok1 (RReq LQuery [113] (Some [40;46;41])) = true /\
  eval_str rx_ok1 rx_ex1 cx1 (print (RReq LQuery [113] (Some [40;46;41]))) = OVal (VJ (JStr [97])) /\
  simple_expr rx_ok1 (RRespBody (Some [47;97;126;49;98;47;49])) = true /\
  ptr_strict cx1 (RRespBody (Some [47;97;126;49;98;47;49])) = true /\
  eval_str rx_ok1 rx_ex1 cx1 (print (RRespBody (Some [47;97;126;49;98;47;49]))) = OVal (VJ (JInt 5)).
Proof. repeat split; vm_compute; reflexivity. Qed.


(* ---------- nested link bodies: every leaf replaced at every depth; unresolvable iff some leaf is ---------- *)
Section NestedProof.
  Variable rx_ok : str -> bool.
  Variable rx_extract : str -> str -> option str.
  Variable cx : ctx.
  Notation EN := (eval_nested rx_ok rx_extract cx).
  Notation LOK := (leaves_ok rx_ok rx_extract cx).
  Notation HU := (has_unres rx_ok rx_extract cx).
  Notation SUB := (subst_nested rx_ok rx_extract cx).

  Definition nested_spec (e : json) : Prop :=
    LOK e = true -> EN e = if HU e then OVal VUnres else OVal (VJ (SUB e)).

  Lemma nested_arr_go (l : list json) : Forall nested_spec l -> forall acc, forallb LOK l = true ->
    (fix go (l : list json) (acc : list json) (opq : bool) : outcome :=
       match l with
       | [] => if opq then OVal VOpaque else OVal (VJ (JArr (rev acc)))
       | x :: r => match EN x with
                   | OVal (VJ j) => go r (j :: acc) opq
                   | OVal VUnres => OVal VUnres
                   | OVal _ => go r acc true
                   | other => other
                   end
       end) l acc false
    = if existsb HU l then OVal VUnres else OVal (VJ (JArr (rev acc ++ map SUB l))).
  Proof.
    intros HF. induction HF as [|x l Hx _ IH]; intros acc Hok.
    - cbn. rewrite app_nil_r. reflexivity.
    - cbn [forallb] in Hok. apply andb_true_iff in Hok. destruct Hok as [Hx' Hl].
      cbn [existsb map]. rewrite (Hx Hx'). destruct (HU x); [reflexivity|].
      cbn [orb]. rewrite (IH _ Hl). destruct (existsb HU l); [reflexivity|].
      cbn [rev]. rewrite <- app_assoc. reflexivity.
  Qed.

  Lemma nested_obj_go (l : list (str * json)) : Forall (fun kv => nested_spec (snd kv)) l -> forall acc,
    forallb (fun kv => key_ok rx_ok rx_extract cx (fst kv) && LOK (snd kv)) l = true ->
    (fix go (l : list (str * json)) (acc : list (str * json)) (opq : bool) : outcome :=
       match l with
       | [] => if opq then OVal VOpaque else OVal (VJ (JObj acc))
       | (k, x) :: r =>
           match key_of (eval_str rx_ok rx_extract cx k) with
           | OVal VUnres => OVal VUnres
           | OVal kv =>
               match EN x with
               | OVal (VJ j) => match kv with
                                | VJ (JStr k') => go r (assoc_set k' j acc) opq
                                | _ => go r acc true
                                end
               | OVal VUnres => OVal VUnres
               | OVal _ => go r acc true
               | other => other
               end
           | other => other
           end
       end) l acc false
    = if existsb (fun kv => is_unres_o (evk rx_ok rx_extract cx (fst kv)) || HU (snd kv)) l then OVal VUnres
      else OVal (VJ (JObj (fold_left (fun acc kv => assoc_set (leaf_key rx_ok rx_extract cx (fst kv)) (SUB (snd kv)) acc) l acc))).
  Proof.
    intros HF. induction HF as [|[k x] l Hx _ IH]; intros acc Hok.
    - reflexivity.
    - cbn [forallb fst snd] in Hok. apply andb_true_iff in Hok. destruct Hok as [Hkx Hl].
      apply andb_true_iff in Hkx. destruct Hkx as [Hk Hx'].
      cbn [existsb fold_left fst snd]. cbn [snd] in Hx.
      unfold key_ok, evk, ev in Hk. unfold evk, ev, leaf_key, evk, ev.
      destruct (key_of (eval_str rx_ok rx_extract cx k)) as [[[| | |s| |]| | | |?]| |]; try discriminate Hk.
      + cbn [is_unres_o orb]. rewrite (Hx Hx'). destruct (HU x); [reflexivity|]. apply IH. exact Hl.
      + reflexivity.
  Qed.

  Lemma nested_denotes e : nested_spec e.
  Proof.
    induction e using json_ind'; unfold nested_spec; cbn [leaves_ok has_unres subst_nested]; intros Hok; try reflexivity.
    - cbn [eval_nested]. unfold value_ok, ev in Hok. unfold ev, leaf_value, ev.
      destruct (eval_str rx_ok rx_extract cx s) as [[j| | | |?]| |]; try discriminate Hok; reflexivity.
    - cbn [eval_nested]. rewrite (nested_arr_go l H [] Hok). reflexivity.
    - cbn [eval_nested]. rewrite (nested_obj_go kvs H [] Hok). reflexivity.
  Qed.

  Lemma evaluate_nested_is e : evaluate rx_ok rx_extract cx e true = EN e.
  Proof. destruct e; reflexivity. Qed.

  Lemma nested_body_denotes e : LOK e = true ->
    evaluate rx_ok rx_extract cx e true = if HU e then OVal VUnres else OVal (VJ (SUB e)).
  Proof. intros H. rewrite evaluate_nested_is. exact (nested_denotes e H). Qed.
End NestedProof.

(* non-vacuity: an array of objects holding an array of objects (depth 4), expressions in keys and values; and the same
   shape with one unresolvable leaf at the bottom *)
Definition nb_ok : json :=
  JObj [([97], JArr [JObj [([36;109;101;116;104;111;100],                                  (* key $method *)
                           JArr [JObj [([99], JStr [36;115;116;97;116;117;115;67;111;100;101])]; JInt 1])]])].   (* $statusCode *)
Definition nb_unres : json :=
  JArr [JArr [JObj [([99], JStr [36;114;101;115;112;111;110;115;101;46;98;111;100;121;35;47;122])]]].   (* $response.body#/z *)
Example nested_nonvacuous :
  leaves_ok rx_any rx_none cx1 nb_ok = true /\ has_unres rx_any rx_none cx1 nb_ok = false /\
  evaluate rx_any rx_none cx1 nb_ok true =
    OVal (VJ (JObj [([97], JArr [JObj [([71;69;84], JArr [JObj [([99], JStr [50;48;49])]; JInt 1])]])])) /\
  leaves_ok rx_any rx_none cx1 nb_unres = true /\ has_unres rx_any rx_none cx1 nb_unres = true /\
  evaluate rx_any rx_none cx1 nb_unres true = OVal VUnres.
Proof. repeat split; vm_compute; reflexivity. Qed.

(* ---------- the VALUE domain of the source request (added after the seeded regression C10_c) ----------
   $request.query / path / header .name without extractor: UNRESOLVABLE exactly when the request has no such parameter
   (or it is null); every other value - 0, 0.0, the empty string, false, [], {} as much as a truthy one - is the value of the
   expression, survives the filter of into_step_input and is the value the derived request carries. *)
Lemma simple_req_plain rx_ok l name : name_ok name = true -> simple_expr rx_ok (RReq l name None) = true.
Proof. intros Hn. cbn [simple_expr rx_region]. rewrite Hn. reflexivity. Qed.

Lemma request_value_denotes rx_ok rx_extract cx l name v :
  name_ok name = true -> source_param cx l name = Some v -> v <> PJ JNull ->
  eval_str rx_ok rx_extract cx (print (RReq l name None)) = OVal (value_of_pval v) /\ value_of_pval v <> VUnres.
Proof.
  intros Hn Hs Hv.
  rewrite (eval_denotes_partial rx_ok rx_extract cx _ (simple_req_plain rx_ok l name Hn) eq_refl).
  cbn [denote]. rewrite Hs.
  destruct v as [j|r]; [destruct j|]; cbn [value_of_pval denote_extract]; try (split; [reflexivity|discriminate]).
  exfalso. apply Hv. reflexivity.
Qed.

Lemma request_value_unresolvable_iff rx_ok rx_extract cx l name :
  name_ok name = true ->
  (eval_str rx_ok rx_extract cx (print (RReq l name None)) = OVal VUnres
   <-> (source_param cx l name = None \/ source_param cx l name = Some (PJ JNull))).
Proof.
  intros Hn. split.
  - intros He. destruct (source_param cx l name) as [v|] eqn:Hs; [|left; reflexivity].
    destruct v as [j|r]; [destruct j|]; try (right; reflexivity);
      match type of Hs with _ = Some ?V =>
        assert (Hv : V <> PJ JNull) by discriminate;
        destruct (request_value_denotes rx_ok rx_extract cx l name V Hn Hs Hv) as [E U];
        rewrite E in He; inversion He as [He']; exfalso; apply U; exact He' end.
  - intros H.
    rewrite (eval_denotes_partial rx_ok rx_extract cx _ (simple_req_plain rx_ok l name Hn) eq_refl).
    cbn [denote]. destruct H as [-> | ->]; reflexivity.
Qed.

(* with an extractor the absent / null parameter is UNRESOLVABLE as well, whatever the pattern *)
Lemma absent_request_value_unresolvable rx_ok rx_extract cx l name rx :
  name_ok name = true -> rx_region rx_ok rx = true ->
  (source_param cx l name = None \/ source_param cx l name = Some (PJ JNull)) ->
  eval_str rx_ok rx_extract cx (print (RReq l name rx)) = OVal VUnres.
Proof.
  intros Hn Hr H.
  assert (Hs : simple_expr rx_ok (RReq l name rx) = true) by (cbn [simple_expr]; rewrite Hn, Hr; reflexivity).
  rewrite (eval_denotes_partial rx_ok rx_extract cx _ Hs eq_refl). cbn [denote]. destruct H as [-> | ->]; reflexivity.
Qed.

(* where the code DOES look at truthiness: extract(value) or UNRESOLVABLE - a group that matched the empty string counts as no match *)
Lemma extractor_empty_group_unresolvable rx_extract pat s :
  rx_extract pat s = Some [] -> apply_extractor rx_extract (Some pat) (JStr s) = OVal VUnres.
Proof. intros H. cbn [apply_extractor]. rewrite H. reflexivity. Qed.

(* a template none of whose parts is UNRESOLVABLE is not UNRESOLVABLE: falsy parts do not poison it *)
Lemma combine_resolvable vs : existsb is_unres vs = false -> combine vs <> VUnres.
Proof.
  intros H. destruct vs as [|v [|w r]].
  - cbn. discriminate.
  - cbn [combine]. cbn [existsb] in H. rewrite orb_false_r in H. destruct v; try discriminate.
  - unfold combine. rewrite H. destruct (join_parts (v :: w :: r)); discriminate.
Qed.

Lemma assoc_get_map_snd {A B} (f : A -> B) c (e : list (str * A)) :
  assoc_get c (map (fun cd => (fst cd, f (snd cd))) e) = option_map f (assoc_get c e).
Proof.
  induction e as [|[k a] e IH]; [reflexivity|]. cbn [map assoc_get fst snd]. destruct (str_eqb c k); [reflexivity|exact IH].
Qed.

Lemma keep_sendable_set n x v inner : sendable x = Some v -> assoc_get n (keep_sendable (assoc_set n x inner)) = Some v.
Proof.
  intros Hx. induction inner as [|[k y] inner IH]; cbn [assoc_set].
  - cbn [keep_sendable]. rewrite Hx. cbn [assoc_get]. rewrite str_eqb_refl. reflexivity.
  - destruct (str_eqb n k) eqn:E.
    + cbn [keep_sendable]. rewrite Hx. cbn [assoc_get]. rewrite str_eqb_refl. reflexivity.
    + cbn [keep_sendable]. destruct (sendable y); [cbn [assoc_get]; rewrite E|]; exact IH.
Qed.

Lemma extract_parameters_last rx_ok rx_extract cx ps p mb mm :
  extract_parameters rx_ok rx_extract cx {| l_params := ps ++ [p]; l_body := mb; l_merge := mm |} =
  set_extracted (lp_container p) (lp_name p) (to_xval (evaluate rx_ok rx_extract cx (lp_expr p) false))
                (extract_parameters rx_ok rx_extract cx {| l_params := ps; l_body := mb; l_merge := mm |}).
Proof. unfold extract_parameters. cbn [l_params]. rewrite fold_left_app. reflexivity. Qed.

Definition plain_param (c n : str) (loc : ploc) (name : str) : lparam :=
  {| lp_container := c; lp_name := n; lp_expr := JStr (print (RReq loc name None)) |}.

(* end to end: the (last) link parameter  c.n: $request.<loc>.<name>  puts exactly the value of the source request, falsy or
   not, into container c of the derived case - provided the generator honours exclude *)
Lemma link_carries_source_value rx_ok rx_extract cx loc name c n v gen ps mb mm :
  name_ok name = true -> source_param cx loc name = Some v -> v <> PJ JNull ->
  (forall excl g, In n excl -> gen excl = Some g -> assoc_get n g = None) ->
  exists f,
    final_container (kwargs_of (extract_parameters rx_ok rx_extract cx
                       {| l_params := ps ++ [plain_param c n loc name]; l_body := mb; l_merge := mm |})) c gen = Some f
    /\ assoc_get n f = Some (value_of_pval v) /\ value_of_pval v <> VUnres.
Proof.
  intros Hn Hs Hv Hg.
  destruct (request_value_denotes rx_ok rx_extract cx loc name v Hn Hs Hv) as [He Hu].
  assert (Hsend : sendable (XOk (value_of_pval v)) = Some (value_of_pval v)).
  { destruct v as [j|r]; [destruct j|]; try reflexivity. exfalso. apply Hv. reflexivity. }
  rewrite extract_parameters_last. unfold plain_param. cbn [lp_container lp_name lp_expr evaluate]. rewrite He. cbn [to_xval].
  set (e0 := extract_parameters rx_ok rx_extract cx {| l_params := ps; l_body := mb; l_merge := mm |}).
  unfold set_extracted. set (inner := match assoc_get c e0 with Some d => d | None => [] end).
  set (d := keep_sendable (assoc_set n (XOk (value_of_pval v)) inner)).
  assert (Hd : assoc_get n d = Some (value_of_pval v)) by (apply keep_sendable_set; exact Hsend).
  destruct (link_values_override_generated
              (kwargs_of (assoc_set c (assoc_set n (XOk (value_of_pval v)) inner) e0)) c d n (value_of_pval v) gen) as [f [F1 F2]].
  - unfold kwargs_of. rewrite assoc_get_map_snd, assoc_get_set_same. reflexivity.
  - exact Hd.
  - intros g G. apply (Hg _ _ (in_map fst _ _ (assoc_get_in _ _ _ Hd)) G).
  - exists f. split; [exact F1|]. split; [exact F2|exact Hu].
Qed.

(* non-vacuity: every JSON falsy value and a float zero, under query / path / header names; null and an absent name *)
Definition cx_falsy : ctx :=
  {| c_url := [117]; c_method := [112;111;115;116]; c_status := 201%Z;
     c_query := Some [([122], PJ (JInt 0)); ([101], PJ (JStr [])); ([102], PJ (JBool false)); ([97], PJ (JArr []));
                      ([111], PJ (JObj [])); ([120], PFloat [48;46;48]); ([110], PJ JNull); ([116], PJ (JInt 7))];
     c_path := Some [([112], PJ (JInt 0))];
     c_headers := Some [([88;45;69], PJ (JStr []))];
     c_body := VNotSet; r_headers := []; r_body := None |}.

Example falsy_values_nonvacuous :
  forallb (fun kv => py_falsy (snd kv)) [([122], PJ (JInt 0)); ([101], PJ (JStr [])); ([102], PJ (JBool false)); ([97], PJ (JArr []));
                                         ([111], PJ (JObj [])); ([120], PFloat [48;46;48])] = true /\
  map (fun k => eval_str rx_any rx_none cx_falsy (print (RReq LQuery k None))) [[122]; [101]; [102]; [97]; [111]; [120]; [110]; [109]; [116]]
  = [OVal (VJ (JInt 0)); OVal (VJ (JStr [])); OVal (VJ (JBool false)); OVal (VJ (JArr [])); OVal (VJ (JObj []));
     OVal (VFloat [48;46;48]); OVal VUnres; OVal VUnres; OVal (VJ (JInt 7))] /\
  eval_str rx_any rx_none cx_falsy (print (RReq LPath [112] None)) = OVal (VJ (JInt 0)) /\
  eval_str rx_any rx_none cx_falsy (print (RReq LHeader [120;45;101] None)) = OVal (VJ (JStr [])) /\
  (* in a template: a-{$request.query.z} is a-0, a-{$request.query.e} is a-, a-{$request.query.n} (null) is a- too,
     a-{$request.query.m} (absent) is UNRESOLVABLE *)
  map (fun k => eval_str rx_any rx_none cx_falsy (print_tpl [TText [97;45]; TEmb (RReq LQuery k None)])) [[122]; [101]; [102]; [120]; [109]]
  = [OVal (VJ (JStr [97;45;48])); OVal (VJ (JStr [97;45])); OVal (VJ (JStr [97;45;70;97;108;115;101]));
     OVal (VJ (JStr [97;45;48;46;48])); OVal VUnres] /\
  (* through a link: query.tq of the derived case is the 0 of the source request although the generator offers a value *)
  (exists f, final_container (kwargs_of (extract_parameters rx_any rx_none cx_falsy
               {| l_params := [plain_param s_query [116;113] LQuery [122]]; l_body := None; l_merge := true |})) s_query
               (fun excl => Some (filter (fun kv => negb (in_strs (fst kv) excl)) [([116;113], VJ (JStr [71;69;78]))])) = Some f
             /\ assoc_get [116;113] f = Some (VJ (JInt 0))).
Proof. repeat split; try (vm_compute; reflexivity). eexists. split; vm_compute; reflexivity. Qed.
(* ---------------------------------------------------------------------- *)
(* the link object over histories of evaluations *)
Section LinkObjectProofs.
  Variable src : Type.
  Variable cid : src -> N.
  Variable fresh : src -> extracted.
  Variable fresh_body : src -> option xval.
  Variable cap : nat.
  Variable containers : list str.
  (* the case id identifies the exchange: what the memo is keyed by determines what is extracted *)
  Hypothesis cid_determines : forall x y, cid x = cid y -> fresh_view src cid fresh fresh_body x = fresh_view src cid fresh fresh_body y.

  Local Notation fv := (fresh_view src cid fresh fresh_body).
  Local Notation lextract := (link_extract src cid fresh fresh_body cap false containers).
  Local Notation lrun := (link_run src cid fresh fresh_body cap false containers).

  Definition refs_lt (t : tobj) (n : nat) : Prop := forall c r, In (c, r) (t_params t) -> (r < n)%nat.

  Lemma read_app h ext t : refs_lt t (length h) -> read (h ++ ext) t = read h t.
  Proof.
    intros Hlt. unfold read. f_equal. f_equal.
    apply map_ext_in. intros [c r] Hin. cbn [fst snd]. f_equal.
    apply app_nth1. eapply Hlt; eauto.
  Qed.

  Lemma alloc_read_map (e : extracted) : forall h : heap,
    map (fun cr : str * nat => (fst cr, nth (snd cr) (h ++ map snd e) [])) (List.combine (map fst e) (seq (length h) (length e))) = e.
  Proof.
    induction e as [|[c d] e IH]; intros h; [reflexivity|].
    cbn [map fst snd length seq List.combine]. f_equal.
    - f_equal. apply nth_middle.
    - specialize (IH (h ++ [d])). rewrite <- app_assoc in IH. cbn [app] in IH.
      rewrite app_length in IH. cbn [length] in IH. replace (length h + 1)%nat with (S (length h)) in IH by lia. exact IH.
  Qed.

  Lemma alloc_refs_lt (e : extracted) (h : heap) c r :
    In (c, r) (List.combine (map fst e) (seq (length h) (length e))) -> (r < length (h ++ map snd e))%nat.
  Proof.
    intros Hin. apply in_combine_r in Hin. apply in_seq in Hin. rewrite app_length, map_length. lia.
  Qed.

  Lemma In_firstn {A} n (l : list A) x : In x (firstn n l) -> In x l.
  Proof.
    revert l. induction n as [|n IH]; intros [|a l]; cbn [firstn]; intros H; try contradiction.
    destruct H as [H|H]; [left; exact H|right; apply IH; exact H].
  Qed.

  Lemma memo_get_In k m t : memo_get k m = Some t -> In (k, t) m.
  Proof.
    induction m as [|[k1 t1] m IH]; cbn [memo_get]; [discriminate|].
    destruct (N.eqb k k1) eqn:E.
    - intros H. inversion H; subst. apply N.eqb_eq in E. subst. left; reflexivity.
    - intros H. right. apply IH. exact H.
  Qed.

  Definition memo_inv (st : lstate) : Prop :=
    forall k t, In (k, t) (ls_memo st) ->
      refs_lt t (length (ls_heap st)) /\ forall x, cid x = k -> read (ls_heap st) t = fv x.

  Lemma link_extract_correct st x st1 t :
    memo_inv st -> lextract st x = (st1, t) ->
    memo_inv st1 /\ (exists ext, ls_heap st1 = ls_heap st ++ ext) /\ refs_lt t (length (ls_heap st1)) /\ read (ls_heap st1) t = fv x.
  Proof.
    intros Hinv. unfold link_extract.
    destruct (memo_get (cid x) (ls_memo st)) as [t0|] eqn:Hget.
    - intros H. inversion H; subst; clear H. cbn [ls_heap ls_memo].
      apply memo_get_In in Hget. destruct (Hinv _ _ Hget) as [Hlt Hrd].
      unfold memo_inv; cbn [ls_heap ls_memo]. split; [|split; [|split]].
      + intros k0 t1 [Heq|Hin].
        * inversion Heq; subst. apply Hinv. exact Hget.
        * unfold memo_drop in Hin. apply filter_In in Hin. apply Hinv. exact (proj1 Hin).
      + exists []. rewrite app_nil_r. reflexivity.
      + exact Hlt.
      + apply Hrd. reflexivity.
    - unfold extract_impl, alloc. intros H. inversion H; subst; clear H. cbn [ls_heap ls_memo].
      set (h := ls_heap st). set (e := fresh x).
      assert (Hnew_lt : refs_lt {| t_parent := cid x; t_params := List.combine (map fst e) (seq (length h) (length e)); t_body := fresh_body x |}
                                (length (h ++ map snd e))).
      { intros c r Hin. cbn [t_params] in Hin. eapply alloc_refs_lt; eauto. }
      assert (Hnew_rd : read (h ++ map snd e) {| t_parent := cid x; t_params := List.combine (map fst e) (seq (length h) (length e)); t_body := fresh_body x |} = fv x).
      { unfold read, fresh_view. cbn [t_parent t_params t_body]. rewrite alloc_read_map. reflexivity. }
      unfold memo_inv; cbn [ls_heap ls_memo]. split; [|split; [|split]].
      + intros k0 t1 Hin. apply In_firstn in Hin. destruct Hin as [Heq|Hin].
        * inversion Heq; subst. split; [exact Hnew_lt|]. intros y Hy. rewrite Hnew_rd. apply cid_determines. symmetry; exact Hy.
        * destruct (Hinv _ _ Hin) as [Hlt Hrd]. split.
          -- intros c r Hc. specialize (Hlt c r Hc). rewrite app_length. fold h in Hlt. lia.
          -- intros y Hy. rewrite read_app by exact Hlt. apply Hrd. exact Hy.
      + exists (map snd e). reflexivity.
      + exact Hnew_lt.
      + exact Hnew_rd.
  Qed.

  Lemma link_run_correct xs : forall st st2 ts,
    memo_inv st -> lrun st xs = (st2, ts) ->
    (exists ext, ls_heap st2 = ls_heap st ++ ext) /\
    Forall2 (fun tv x => snd tv = fv x /\ read (ls_heap st2) (fst tv) = fv x) ts xs.
  Proof.
    induction xs as [|x xs IH]; intros st st2 ts Hinv; cbn [link_run].
    - intros H. inversion H; subst. split; [exists []; rewrite app_nil_r; reflexivity|constructor].
    - destruct (lextract st x) as [st1 t] eqn:Hex.
      destruct (lrun st1 xs) as [st2' ts'] eqn:Hrun.
      intros H. inversion H; subst; clear H.
      destruct (link_extract_correct _ _ _ _ Hinv Hex) as (Hinv1 & [ext1 Hh1] & Hlt & Hrd).
      destruct (IH _ _ _ Hinv1 Hrun) as ([ext2 Hh2] & Hall).
      split.
      + exists (ext1 ++ ext2). rewrite Hh2, Hh1, app_assoc. reflexivity.
      + constructor; [|exact Hall]. cbn [fst snd]. split; [exact Hrd|].
        rewrite Hh2. rewrite read_app by exact Hlt. exact Hrd.
  Qed.

  Lemma Forall2_weaken {A B} (P Q : A -> B -> Prop) l1 l2 :
    (forall a b, P a b -> Q a b) -> Forall2 P l1 l2 -> Forall2 Q l1 l2.
  Proof. intros HPQ H. induction H; constructor; auto. Qed.

  Lemma Forall2_map_eq {A B C} (f : A -> C) (g : B -> C) l1 l2 :
    Forall2 (fun a b => f a = g b) l1 l2 -> map f l1 = map g l2.
  Proof. induction 1; cbn [map]; congruence. Qed.

  Lemma link_extraction_independent_of_history xs :
    views_at_return src cid fresh fresh_body cap false containers xs = map fv xs /\
    views_at_end src cid fresh fresh_body cap false containers xs = map fv xs.
  Proof.
    unfold views_at_return, views_at_end.
    destruct (lrun (link_init false containers) xs) as [st ts] eqn:Hrun.
    assert (Hinv : memo_inv (link_init false containers)) by (intros k t []).
    destruct (link_run_correct _ _ _ _ Hinv Hrun) as [_ Hall]. cbn [snd].
    split.
    - apply Forall2_map_eq with (f := snd) (g := fv). eapply Forall2_weaken; [|exact Hall]. intros a b [H _]; exact H.
    - apply Forall2_map_eq with (f := fun tv => read (ls_heap st) (fst tv)) (g := fv).
      eapply Forall2_weaken; [|exact Hall]. intros a b [_ H]; exact H.
  Qed.
End LinkObjectProofs.

(* the instance over the real extraction functions: no hypothesis left (a source is named by its case id) *)
Lemma link_history_denotes rx_ok rx_extract l tbl xs :
  link_history rx_ok rx_extract l false tbl xs
  = (link_fresh_views rx_ok rx_extract l tbl xs, link_fresh_views rx_ok rx_extract l tbl xs).
Proof.
  unfold link_history, link_fresh_views.
  destruct (link_extraction_independent_of_history N (fun k => k)
              (fun k : N => extract_parameters rx_ok rx_extract (ctx_at tbl k) l)
              (fun k : N => extract_body rx_ok rx_extract (ctx_at tbl k) l) 8 (link_containers l)
              (fun x y H => f_equal _ H) xs) as [H1 H2].
  rewrite H1, H2. reflexivity.
Qed.

(* sentinel: inner dicts shared by all the Transitions of the link.  Two exchanges whose response bodies carry id 1 and id 2,
   link parameter query.id = $response.body#/id, history [A; B; A] *)
Definition cx_id (n : Z) : ctx :=
  {| c_url := [117]; c_method := [112;111;115;116]; c_status := 201%Z; c_query := None; c_path := None; c_headers := None;
     c_body := VNotSet; r_headers := []; r_body := Some (JObj [([105;100], JInt n)]) |}.
Definition link_id : link :=
  {| l_params := [{| lp_container := s_query; lp_name := [105;100]; lp_expr := JStr (print (RRespBody (Some [47;105;100]))) |}];
     l_body := None; l_merge := true |}.
Definition view_id (k : N) (n : Z) : tview := (k, [(s_query, [([105;100], XOk (VJ (JInt n)))])], None).

Lemma link_shared_containers_sentinel :
  link_fresh_views rx_any rx_none link_id [cx_id 1; cx_id 2] [0%N; 1%N; 0%N] = [view_id 0 1; view_id 1 2; view_id 0 1] /\
  link_history rx_any rx_none link_id false [cx_id 1; cx_id 2] [0%N; 1%N; 0%N]
  = ([view_id 0 1; view_id 1 2; view_id 0 1], [view_id 0 1; view_id 1 2; view_id 0 1]) /\
  (* shared inner dicts: the memo hit for A returns the values of B, parent id still A; re-read at the end, the first
     Transition of A says B as well *)
  link_history rx_any rx_none link_id true [cx_id 1; cx_id 2] [0%N; 1%N; 0%N]
  = ([view_id 0 1; view_id 1 2; view_id 0 2], [view_id 0 2; view_id 1 2; view_id 0 2]) /\
  (* single-use sources and a source re-used before any other one is evaluated do not show it at return time *)
  fst (link_history rx_any rx_none link_id true [cx_id 1; cx_id 2] [0%N; 0%N; 1%N; 1%N])
  = [view_id 0 1; view_id 0 1; view_id 1 2; view_id 1 2].
Proof. repeat split; vm_compute; reflexivity. Qed.
