(* C10 proofs *)
From Coq Require Import List NArith ZArith Bool Lia ZifyBool.
From Verif Require Import Common.Str Common.Json C10.Model_C10.
Import ListNotations.
Open Scope N_scope.

(* ---------- escape / unescape ---------- *)
Lemma replace2_cons_ne a b by_ x s : N.eqb x a = false -> replace2 a b by_ (x :: s) = x :: replace2 a b by_ s.
Proof. intros H. destruct s as [|y s]; cbn [replace2]; [reflexivity|]. rewrite H. reflexivity. Qed.

Lemma replace2_hit a b by_ s : replace2 a b by_ (a :: b :: s) = by_ ++ replace2 a b by_ s.
Proof. cbn [replace2]. rewrite !N.eqb_refl. reflexivity. Qed.

Lemma replace2_miss a b by_ x y s : N.eqb y b = false -> replace2 a b by_ (x :: y :: s) = x :: replace2 a b by_ (y :: s).
Proof. intros H. cbn [replace2]. rewrite H, andb_false_r. reflexivity. Qed.

Definition esc_char (c : N) : str := if N.eqb c TILDE then [TILDE; 48] else if N.eqb c SLASH then [TILDE; 49] else [c].

Lemma escape_flat s : escape s = flat_map esc_char s.
Proof.
  unfold escape, replace_char. induction s as [|c s IH]; [reflexivity|].
  cbn [flat_map]. rewrite flat_map_app, IH. f_equal.
  unfold esc_char. destruct (N.eqb c TILDE) eqn:E1.
  - reflexivity.
  - cbn [flat_map]. destruct (N.eqb c SLASH); reflexivity.
Qed.

Definition half_char (c : N) : str := if N.eqb c TILDE then [TILDE; 48] else [c].

Lemma unescape_step1 s : replace2 TILDE 49 [SLASH] (flat_map esc_char s) = flat_map half_char s.
Proof.
  induction s as [|c s IH]; [reflexivity|].
  cbn [flat_map]. unfold esc_char at 1, half_char at 1.
  destruct (N.eqb c TILDE) eqn:E1.
  - cbn [app]. rewrite replace2_miss by reflexivity.
    rewrite replace2_cons_ne by reflexivity. rewrite IH. reflexivity.
  - destruct (N.eqb c SLASH) eqn:E2.
    + apply N.eqb_eq in E2. subst c. cbn [app]. rewrite replace2_hit, IH. reflexivity.
    + cbn [app]. rewrite replace2_cons_ne by exact E1. rewrite IH. reflexivity.
Qed.

Lemma unescape_step2 s : replace2 TILDE 48 [TILDE] (flat_map half_char s) = s.
Proof.
  induction s as [|c s IH]; [reflexivity|].
  cbn [flat_map]. unfold half_char at 1. destruct (N.eqb c TILDE) eqn:E1.
  - apply N.eqb_eq in E1. subst c. cbn [app]. rewrite replace2_hit, IH. reflexivity.
  - cbn [app]. rewrite replace2_cons_ne by exact E1. rewrite IH. reflexivity.
Qed.

Lemma pointer_escape_roundtrip t : unescape (escape t) = t.
Proof. unfold unescape. rewrite escape_flat, unescape_step1. apply unescape_step2. Qed.

(* ---------- Python int() on canonical RFC 6901 indices ---------- *)
Lemma is_digit_bounds c : is_digit c = true -> 48 <= c /\ c <= 57.
Proof. unfold is_digit. rewrite andb_true_iff, !N.leb_le. tauto. Qed.

Lemma to_ascii_digits t : forallb is_digit t = true -> to_ascii t = Some t.
Proof.
  induction t as [|c t IH]; [reflexivity|]. cbn [forallb]. rewrite andb_true_iff. intros [Hc Ht].
  cbn [to_ascii]. rewrite (IH Ht). unfold to_ascii_char.
  apply is_digit_bounds in Hc. destruct (c <? 128) eqn:E; [reflexivity|]. apply N.ltb_ge in E. lia.
Qed.

Lemma digit_not_ws c : is_digit c = true -> mem c ascii_ws = false.
Proof.
  intros H. apply is_digit_bounds in H. unfold mem, ascii_ws. cbn [existsb].
  repeat match goal with |- context [N.eqb c ?k] => destruct (N.eqb_spec c k); [lia|] end. reflexivity.
Qed.

Lemma strip_left_digit c t : is_digit c = true -> strip_left ascii_ws (c :: t) = c :: t.
Proof. intros H. cbn [strip_left]. rewrite (digit_not_ws _ H). reflexivity. Qed.

Lemma forallb_rev {A} (f : A -> bool) l : forallb f (rev l) = forallb f l.
Proof.
  induction l as [|x l IH]; [reflexivity|]. cbn [rev forallb]. rewrite forallb_app, IH. cbn [forallb].
  rewrite andb_true_r. apply andb_comm.
Qed.

Lemma strip_digits t : forallb is_digit t = true -> strip ascii_ws t = t.
Proof.
  intros H. unfold strip. destruct t as [|c t]; [reflexivity|].
  cbn [forallb] in H. apply andb_true_iff in H. destruct H as [Hc Ht].
  rewrite (strip_left_digit _ _ Hc).
  assert (Hr : forallb is_digit (rev (c :: t)) = true).
  { rewrite forallb_rev. cbn [forallb]. rewrite Hc, Ht. reflexivity. }
  destruct (rev (c :: t)) as [|d r] eqn:E.
  - apply (f_equal (@rev N)) in E. rewrite rev_involutive in E. cbn in E. discriminate.
  - cbn [forallb] in Hr. apply andb_true_iff in Hr. destruct Hr as [Hd _].
    rewrite (strip_left_digit _ _ Hd). rewrite <- E. apply rev_involutive.
Qed.

Lemma digits_acc_cnt t : forall acc cnt prev n c, forallb is_digit t = true ->
  digits_acc t acc cnt prev = Some (n, c) -> c = cnt + N.of_nat (length t).
Proof.
  induction t as [|x t IH]; intros acc cnt prev n c Hd H.
  - cbn in H. destruct prev; inversion H. cbn. lia.
  - cbn [forallb] in Hd. apply andb_true_iff in Hd. destruct Hd as [Hx Ht].
    cbn [digits_acc] in H. rewrite Hx in H. apply (IH _ _ _ _ _ Ht) in H. cbn [length]. lia.
Qed.

Lemma canonical_digits t i : canonical_index t = Some i ->
  forallb is_digit t = true /\ t <> [] /\ exists n c, digits_acc t 0 0 false = Some (n, c) /\ i = Z.of_N n.
Proof.
  unfold canonical_index. destruct t as [|c r]; [discriminate|].
  destruct ((N.eqb c 48 && match r with [] => true | _ => false end) || ((49 <=? c) && (c <=? 57) && forallb is_digit r)) eqn:E; [|discriminate].
  destruct (digits_acc (c :: r) 0 0 false) as [[n k]|] eqn:D; [|discriminate].
  intros H. inversion H. split; [|split; [discriminate|exists n, k; split; reflexivity]].
  apply orb_true_iff in E. destruct E as [E|E].
  - apply andb_true_iff in E. destruct E as [E1 E2]. apply N.eqb_eq in E1. subst c. destruct r; [reflexivity|discriminate].
  - apply andb_true_iff in E. destruct E as [E Hr]. apply andb_true_iff in E. destruct E as [E1 E2].
    apply N.leb_le in E1. apply N.leb_le in E2.
    cbn [forallb]. rewrite Hr, andb_true_r. unfold is_digit. apply andb_true_iff. rewrite !N.leb_le. lia.
Qed.

Lemma py_int_canonical t i : canonical_index t = Some i -> (N.of_nat (length t) <=? MAX_STR_DIGITS) = true ->
  py_int t = Some i /\ (0 <= i)%Z.
Proof.
  intros H Hlen. destruct (canonical_digits _ _ H) as [Hd [Hne [n [c [Hacc ->]]]]].
  split; [|lia]. unfold py_int. rewrite (to_ascii_digits _ Hd), (strip_digits _ Hd).
  destruct t as [|x t]; [congruence|].
  assert (Hx : is_digit x = true) by (cbn [forallb] in Hd; apply andb_true_iff in Hd; tauto).
  apply is_digit_bounds in Hx.
  destruct (N.eqb_spec x 45); [lia|]. destruct (N.eqb_spec x 43); [lia|].
  rewrite Hacc. pose proof (digits_acc_cnt _ _ _ _ _ _ Hd Hacc) as Hc.
  apply N.leb_le in Hlen. destruct (MAX_STR_DIGITS <? c) eqn:E; [apply N.ltb_lt in E; lia|]. reflexivity.
Qed.

(* ---------- resolve_pointer vs RFC 6901 ---------- *)
Lemma step_agree target t : (N.of_nat (length t) <=? MAX_STR_DIGITS) = true ->
  (match target with JArr _ => canonical_index t <> None \/ step_py target t = None | _ => True end) ->
  step_py target t = step_rfc target t.
Proof.
  intros Hlen H. destruct target; try reflexivity. cbn [step_py step_rfc].
  destruct (canonical_index t) as [i|] eqn:C.
  - destruct (py_int_canonical _ _ C Hlen) as [-> Hi]. unfold py_index.
    destruct (i <? 0)%Z eqn:E; [apply Z.ltb_lt in E; lia|]. cbn [orb].
    destruct (Z.of_nat (length l) <=? i)%Z eqn:E2, (i <? Z.of_nat (length l))%Z eqn:E3; rewrite ?E; cbn [orb]; try reflexivity; exfalso; lia.
  - destruct H as [H|H]; [congruence|]. cbn [step_py] in H. exact H.
Qed.

Lemma walk_agree toks : forall d,
  forallb (fun t => N.of_nat (length t) <=? MAX_STR_DIGITS) toks = true ->
  lenient_hit_walk d toks = false -> walk step_py d toks = walk step_rfc d toks.
Proof.
  induction toks as [|t r IH]; intros d Hs Hl; [reflexivity|].
  cbn [forallb] in Hs. apply andb_true_iff in Hs. destruct Hs as [Ht Hr].
  cbn [walk lenient_hit_walk] in *.
  destruct (step_py d t) as [x|] eqn:S.
  - assert (A : step_py d t = step_rfc d t).
    { apply step_agree; [exact Ht|]. destruct d; try exact I. left. destruct (canonical_index t); [discriminate|discriminate Hl]. }
    rewrite <- A, S. apply IH; [exact Hr|]. destruct d; try exact Hl. destruct (canonical_index t); [exact Hl|discriminate].
  - assert (A : step_py d t = step_rfc d t).
    { apply step_agree; [exact Ht|]. destruct d; try exact I. right. exact S. }
    rewrite <- A, S. reflexivity.
Qed.

Lemma pointer_rfc6901_partial d p :
  valid_escapes p = true -> short_tokens p = true -> lenient_hit d p = false ->
  resolve_pointer d p = of_opt (rfc6901 d p).
Proof.
  intros Hv Hs Hl. unfold resolve_pointer, rfc6901, lenient_hit in *. destruct p as [|c p]; [reflexivity|].
  destruct (N.eqb c SLASH) eqn:E; [|reflexivity]. cbn [andb] in *. rewrite Hv.
  f_equal. apply walk_agree; assumption.
Qed.

(* witnesses *)
Definition d_a123 : json := JObj [([97], JArr [JInt 1; JInt 2; JInt 3])].
Definition p_neg : str := [47;97;47;45;49].            (* /a/-1 *)
Definition d_10_20 : json := JArr [JInt 10; JInt 20].
Definition p_space : str := [47;32;49].                (* / 1 *)
Definition d_0_19 : json := JArr (map (fun n => JInt (Z.of_nat n)) (seq 0 20)).
Definition p_under : str := [47;49;95;48].             (* /1_0 *)
Definition d_tilde : json := JObj [([97;126;50], JInt 1)].
Definition p_tilde : str := [47;97;126;50].            (* /a~2 *)

Lemma pointer_refuted_neg : resolve_pointer d_a123 p_neg <> of_opt (rfc6901 d_a123 p_neg).
Proof. vm_compute. discriminate. Qed.
Lemma pointer_refuted_space : resolve_pointer d_10_20 p_space <> of_opt (rfc6901 d_10_20 p_space).
Proof. vm_compute. discriminate. Qed.
Lemma pointer_refuted_under : resolve_pointer d_0_19 p_under <> of_opt (rfc6901 d_0_19 p_under).
Proof. vm_compute. discriminate. Qed.
Lemma pointer_refuted_tilde : valid_escapes p_tilde = false /\ resolve_pointer d_tilde p_tilde <> of_opt (rfc6901 d_tilde p_tilde).
Proof. split; [reflexivity|]. vm_compute. discriminate. Qed.
Lemma pointer_refuted_regions : lenient_hit d_a123 p_neg = true /\ lenient_hit d_10_20 p_space = true /\ lenient_hit d_0_19 p_under = true.
Proof. repeat split; vm_compute; reflexivity. Qed.

(* non-vacuity: a pointer with escapes and a canonical index inside the region *)
Example pointer_partial_nonvacuous :
  let d := JObj [([97;47;98], JArr [JInt 5; JObj [([109;126;110], JInt 9)]])] in
  let p := [47;97;126;49;98;47;49;47;109;126;48;110] in     (* /a~1b/1/m~0n *)
  valid_escapes p = true /\ short_tokens p = true /\ lenient_hit d p = false /\ resolve_pointer d p = VJ (JInt 9).
Proof. repeat split; vm_compute; reflexivity. Qed.

(* ---------- status-code filters ---------- *)
Definition key_alphabet : list N := digit_chars ++ [88; 120].
Definition all_keys : list str := product [key_alphabet; key_alphabet; key_alphabet].

Definition codes : list Z := map Z.of_nat (seq 0 1000).

Fixpoint zlist_eqb (a b : list Z) : bool :=
  match a, b with
  | [], [] => true
  | x :: a', y :: b' => Z.eqb x y && zlist_eqb a' b'
  | _, _ => false
  end.

Lemma zlist_eqb_eq a : forall b, zlist_eqb a b = true -> a = b.
Proof.
  induction a as [|x a IH]; intros [|y b] H; try discriminate; [reflexivity|].
  cbn in H. apply andb_true_iff in H. destruct H as [H1 H2]. apply Z.eqb_eq in H1. subst. f_equal. apply IH. exact H2.
Qed.

(* the expansion is exactly the increasing list of the codes the key matches *)
Definition key_check (k : str) : bool :=
  match expand_status_code k with
  | Some l => zlist_eqb l (filter (key_matches k) codes)
  | None => false
  end.

Lemma all_keys_check : forallb key_check all_keys = true.
Proof. vm_compute. reflexivity. Qed.

Lemma key_char_in c : key_char_ok c = true -> In c key_alphabet.
Proof.
  unfold key_char_ok, key_alphabet. intros H. apply in_or_app.
  apply orb_true_iff in H. destruct H as [H|H].
  - apply orb_true_iff in H. destruct H as [H|H].
    + left. apply is_digit_bounds in H. unfold digit_chars.
      assert (c = 48 \/ c = 49 \/ c = 50 \/ c = 51 \/ c = 52 \/ c = 53 \/ c = 54 \/ c = 55 \/ c = 56 \/ c = 57) as Hc by lia.
      cbn [In]. intuition.
    + right. apply N.eqb_eq in H. subst. left. reflexivity.
  - right. apply N.eqb_eq in H. subst. right. left. reflexivity.
Qed.

Lemma wf_key_in k : wf_key k = true -> In k all_keys.
Proof.
  destruct k as [|a [|b [|c [|? ?]]]]; try discriminate. cbn [wf_key]. intros H.
  apply andb_true_iff in H. destruct H as [H Hc]. apply andb_true_iff in H. destruct H as [Ha Hb].
  unfold all_keys. cbn [product]. apply in_flat_map. exists a. split; [apply key_char_in; exact Ha|].
  apply in_map. apply in_flat_map. exists b. split; [apply key_char_in; exact Hb|].
  apply in_map. apply in_flat_map. exists c. split; [apply key_char_in; exact Hc|]. left. reflexivity.
Qed.

Lemma key_matches_range k code : key_matches k code = true -> (0 <= code < 1000)%Z.
Proof.
  destruct k as [|a [|b [|c [|? ?]]]]; try discriminate. unfold key_matches. intros H.
  repeat (apply andb_true_iff in H; destruct H as [H ?]). lia.
Qed.

Lemma expand_spec k code : wf_key k = true ->
  exists l, expand_status_code k = Some l /\ existsb (Z.eqb code) l = key_matches k code.
Proof.
  intros Hk. pose proof (wf_key_in _ Hk) as Hin.
  pose proof (proj1 (forallb_forall _ _) all_keys_check _ Hin) as Hc. unfold key_check in Hc.
  destruct (expand_status_code k) as [l|]; [|discriminate]. exists l. split; [reflexivity|].
  apply zlist_eqb_eq in Hc. subst l. apply eq_iff_eq_true. rewrite existsb_exists. split.
  - intros [z [Hz He]]. apply Z.eqb_eq in He. subst z. apply filter_In in Hz. tauto.
  - intros Hm. exists code. split; [|apply Z.eqb_refl]. apply filter_In. split; [|exact Hm].
    apply key_matches_range in Hm. unfold codes. apply in_map_iff. exists (Z.to_nat code). split; [lia|apply in_seq; lia].
Qed.

Lemma match_status_spec k code : wf_key k = true -> match_status_code k code = Some (key_matches k code).
Proof. intros Hk. destruct (expand_spec k code Hk) as [l [He Hm]]. unfold match_status_code. rewrite He, Hm. reflexivity. Qed.

Lemma default_spec keys code : wf_keys keys = true ->
  default_status_code keys code = Some (forallb (fun k => str_eqb k s_default || negb (key_matches k code)) keys).
Proof.
  unfold default_status_code, wf_keys. intros H.
  assert (G : exists ls, all_some (map expand_status_code (filter (fun k => negb (str_eqb k s_default)) keys)) = Some ls
              /\ existsb (Z.eqb code) (concat ls) = negb (forallb (fun k => str_eqb k s_default || negb (key_matches k code)) keys)).
  { induction keys as [|k keys IH]; [exists []; split; reflexivity|].
    cbn [forallb] in H. apply andb_true_iff in H. destruct H as [Hk Hr]. destruct (IH Hr) as [ls [Hs He]].
    cbn [filter forallb]. destruct (str_eqb k s_default) eqn:D.
    - cbn [negb orb andb]. exists ls. split; assumption.
    - cbn [orb] in Hk. destruct (expand_spec k code Hk) as [l [El Em]].
      cbn [negb map all_some]. rewrite El, Hs. exists (l :: ls). split; [reflexivity|].
      cbn [concat]. rewrite existsb_app, Em, He. cbn [orb]. destruct (key_matches k code); reflexivity. }
  destruct G as [ls [Hs He]]. rewrite Hs, He, negb_involutive. reflexivity.
Qed.

Lemma status_filter_iff key keys code :
  (str_eqb key s_default || wf_key key) = true -> wf_keys keys = true ->
  response_filter key keys code = Some (spec_matches key keys code).
Proof.
  intros Hk Hks. unfold response_filter, spec_matches. destruct (str_eqb key s_default) eqn:D.
  - apply default_spec. exact Hks.
  - cbn [orb] in Hk. apply match_status_spec. exact Hk.
Qed.

Lemma bundle_sound lks keys code k :
  wf_keys lks = true -> wf_keys keys = true -> bundle_of lks keys code = Some k ->
  In k lks /\ spec_matches k keys code = true.
Proof.
  intros Hl Hks. induction lks as [|x lks IH]; [discriminate|].
  unfold wf_keys in Hl. cbn [forallb] in Hl. apply andb_true_iff in Hl. destruct Hl as [Hx Hr].
  cbn [bundle_of]. rewrite (status_filter_iff x keys code Hx Hks).
  destruct (spec_matches x keys code) eqn:S.
  - intros H. inversion H. subst. split; [left; reflexivity|exact S].
  - intros H. destruct (IH Hr H) as [Hin Hm]. split; [right; exact Hin|exact Hm].
Qed.

Example status_nonvacuous :
  wf_keys [[50;48;49]; [50;88;88]; s_default] = true /\
  response_filter [50;88;88] [[50;48;49]; [50;88;88]; s_default] 204 = Some true /\
  response_filter s_default [[50;48;49]; [50;88;88]; s_default] 204 = Some false /\
  response_filter s_default [[50;48;49]; [50;88;88]; s_default] 404 = Some true /\
  bundle_of [[50;88;88]; [50;48;49]] [[50;48;49]; [50;88;88]; s_default] 201 = Some [50;88;88].
Proof. repeat split; vm_compute; reflexivity. Qed.
