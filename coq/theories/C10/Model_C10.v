(* C10 model: OpenAPI runtime expressions (lexer, parser, node evaluation,
   evaluate / _evaluate_nested), core.transforms.resolve_pointer with the
   leniency of Python int(), the status-code filters of stateful links, link
   extraction and the merge of link values into the next step input; plus the
   reference semantics (RFC 6901, the runtime-expression grammar).
   Executable definitions only. *)
From Coq Require Import List NArith ZArith Bool.
From Verif Require Import Common.Str Common.Json.
Import ListNotations.
Open Scope N_scope.

(* ---------------------------------------------------------------------- *)
(* characters *)
Definition DOLLAR : N := 36.
Definition DOT : N := 46.
Definition LB : N := 123.
Definition RB : N := 125.
Definition HASH : N := 35.
Definition SLASH : N := 47.
Definition TILDE : N := 126.

(* ---------------------------------------------------------------------- *)
(* JSON pointer escaping.
   escape   = schemas.py APIOperation.operation_reference: replace(~,~0).replace(/,~1)
   unescape = transforms.py resolve_pointer.replace / schemas.py get_operation_by_reference:
              replace(~1,/).replace(~0,~) *)

(* Python str.replace for a two-character needle a b (non-overlapping, left to right) *)
Fixpoint replace2 (a b : N) (by_ : str) (s : str) : str :=
  match s with
  | x :: t =>
      match t with
      | y :: s' => if N.eqb x a && N.eqb y b then by_ ++ replace2 a b by_ s' else x :: replace2 a b by_ t
      | [] => [x]
      end
  | [] => []
  end.

Definition escape (s : str) : str := replace_char SLASH [TILDE; 49] (replace_char TILDE [TILDE; 48] s).
Definition unescape (s : str) : str := replace2 TILDE 48 [TILDE] (replace2 TILDE 49 [SLASH] s).

(* ---------------------------------------------------------------------- *)
(* Python int(str) *)

(* str.isspace code points: what _PyUnicode_TransformDecimalAndSpaceToASCII maps to a blank *)
Definition py_unicode_space (c : N) : bool :=
  ((9 <=? c) && (c <=? 13)) || ((28 <=? c) && (c <=? 32)) || ((8192 <=? c) && (c <=? 8202))
  || mem c [133; 160; 5760; 8232; 8233; 8239; 8287; 12288].

(* zero digits of the Unicode 15 Nd blocks (each block is ten consecutive code points) *)
Definition nd_zeros : list N :=
  [1632; 1776; 1984; 2406; 2534; 2662; 2790; 2918; 3046; 3174; 3302; 3430; 3558; 3664; 3792; 3872; 4160; 4240;
   6112; 6160; 6470; 6608; 6784; 6800; 6992; 7088; 7232; 7248; 42528; 43216; 43264; 43472; 43504; 43600; 44016;
   65296; 66720; 68912; 69734; 69872; 69942; 70096; 70384; 70736; 70864; 71248; 71360; 71472; 71904; 72016;
   72784; 73040; 73120; 73552; 92768; 92864; 93008; 120782; 120792; 120802; 120812; 120822; 123200; 123632;
   124144; 125264; 130032].

Definition to_ascii_char (c : N) : option N :=
  if c <? 128 then Some c
  else if py_unicode_space c then Some 32
  else match find (fun z => (z <=? c) && (c <? z + 10)) nd_zeros with
       | Some z => Some (48 + (c - z))
       | None => None
       end.

Fixpoint to_ascii (s : str) : option str :=
  match s with
  | [] => Some []
  | c :: r => match to_ascii_char c, to_ascii r with
              | Some c', Some r' => Some (c' :: r')
              | _, _ => None
              end
  end.

Definition ascii_ws : list N := [32; 9; 10; 11; 12; 13].

(* digits with single underscores between them; returns value and digit count *)
Fixpoint digits_acc (s : str) (acc : N) (cnt : N) (prev_digit : bool) : option (N * N) :=
  match s with
  | [] => if prev_digit then Some (acc, cnt) else None
  | c :: r =>
      if is_digit c then digits_acc r (acc * 10 + (c - 48)) (cnt + 1) true
      else if N.eqb c 95 && prev_digit then digits_acc r acc cnt false
      else None
  end.

Definition MAX_STR_DIGITS : N := 4300.

Definition py_int (s : str) : option Z :=
  match to_ascii s with
  | None => None
  | Some a =>
      let a := strip ascii_ws a in
      let '(neg, body) := match a with
                          | c :: r => if N.eqb c 45 then (true, r) else if N.eqb c 43 then (false, r) else (false, a)
                          | [] => (false, a)
                          end in
      match digits_acc body 0 0 false with
      | Some (n, cnt) => if MAX_STR_DIGITS <? cnt then None
                         else Some (if neg then Z.opp (Z.of_N n) else Z.of_N n)
      | None => None
      end
  end.

(* ---------------------------------------------------------------------- *)
(* resolve_pointer: values; the legacy int()-lenient resolver (sentinel); the current resolver follows the RFC reference below *)
Inductive value :=
| VJ (j : json)     (* a JSON value *)
| VUnres            (* the UNRESOLVABLE sentinel *)
| VNotSet           (* the NOT_SET sentinel (a case without body) *)
| VOpaque           (* a Python value outside the modelled fragment (repr of containers) *)
| VFloat (r : str). (* a Python float held by a request parameter container, identified by its repr (= str = json.dumps for a
                       finite float); Common.Json has no floats, so documents (bodies) cannot hold one *)

(* what a parameter container of the source request (case.query / path_parameters / headers) may hold under a name *)
Inductive pval :=
| PJ (j : json)
| PFloat (r : str).
Definition value_of_pval (p : pval) : value := match p with PJ j => VJ j | PFloat r => VFloat r end.

(* Python truthiness: bool(x) is False.  The evaluation of the UNCHANGED code never looks at it for a value read without
   extractor; it is here to state that falsy values are values like any other *)
Definition py_falsy (p : pval) : bool :=
  match p with
  | PJ JNull => true
  | PJ (JBool b) => negb b
  | PJ (JInt z) => Z.eqb z 0
  | PJ (JStr s) => match s with [] => true | _ => false end
  | PJ (JArr l) => match l with [] => true | _ => false end
  | PJ (JObj l) => match l with [] => true | _ => false end
  | PFloat r => str_eqb r [48;46;48] || str_eqb r [45;48;46;48]      (* 0.0 and -0.0 *)
  end.

(* list.__getitem__ with an int *)
Definition py_index (l : list json) (i : Z) : option json :=
  let n := Z.of_nat (length l) in
  let i' := if (i <? 0)%Z then (i + n)%Z else i in
  if (i' <? 0)%Z || (n <=? i')%Z then None else nth_error l (Z.to_nat i').

Definition step_py (target : json) (tok : str) : option json :=
  match target with
  | JObj kvs => assoc_get tok kvs
  | JArr l => match py_int tok with Some i => py_index l i | None => None end
  | _ => None
  end.

Fixpoint walk (step : json -> str -> option json) (target : json) (toks : list str) : option json :=
  match toks with
  | [] => Some target
  | t :: r => match step target t with Some x => walk step x r | None => None end
  end.

Definition pointer_tokens (p : str) : list str := tl (split_on SLASH p).

Definition of_opt (o : option json) : value := match o with Some j => VJ j | None => VUnres end.

(* REGRESSION SENTINEL - resolve_pointer as it was BEFORE /repo commit 5f4626e6 (array tokens through Python int(), ValueError
   caught): kept with its refutation witnesses so that a return to int() leniency is recognised; no longer the model of the code *)
Definition resolve_pointer_int_lenient (doc : json) (p : str) : value :=
  match p with
  | [] => VJ doc
  | c :: _ => if N.eqb c SLASH then of_opt (walk step_py doc (map unescape (pointer_tokens p))) else VUnres
  end.

(* ----- reference: RFC 6901 ----- *)
(* array index = 0 / ( %x31-39 *(%x30-39) ) *)
Definition canonical_index (t : str) : option Z :=
  match t with
  | [] => None
  | c :: r =>
      if (N.eqb c 48 && match r with [] => true | _ => false end) || ((49 <=? c) && (c <=? 57) && forallb is_digit r)
      then match digits_acc t 0 0 false with Some (n, _) => Some (Z.of_N n) | None => None end
      else None
  end.

(* every ~ is followed by 0 or 1 *)
Fixpoint valid_escapes (s : str) : bool :=
  match s with
  | [] => true
  | x :: t => if N.eqb x TILDE
              then match t with y :: _ => (N.eqb y 48 || N.eqb y 49) && valid_escapes t | [] => false end
              else valid_escapes t
  end.

Definition step_rfc (target : json) (tok : str) : option json :=
  match target with
  | JObj kvs => assoc_get tok kvs
  | JArr l => match canonical_index tok with
              | Some i => if (i <? Z.of_nat (length l))%Z then nth_error l (Z.to_nat i) else None
              | None => None      (* including the single character - : the nonexistent element *)
              end
  | _ => None
  end.

Definition rfc6901 (doc : json) (p : str) : option json :=
  match p with
  | [] => Some doc
  | c :: _ => if N.eqb c SLASH && valid_escapes p then walk step_rfc doc (map unescape (pointer_tokens p)) else None
  end.

(* region: the walk of the implementation uses, on an array, a token that RFC 6901 does not accept as an index *)
Fixpoint lenient_hit_walk (target : json) (toks : list str) : bool :=
  match toks with
  | [] => false
  | t :: r =>
      match step_py target t with
      | None => false
      | Some x =>
          match target with
          | JArr _ => match canonical_index t with None => true | Some _ => lenient_hit_walk x r end
          | _ => lenient_hit_walk x r
          end
      end
  end.

(* int() refuses more than 4300 digits (sys.int_max_str_digits): tokens are short *)
Definition short_tokens (p : str) : bool :=
  forallb (fun t => N.of_nat (length t) <=? MAX_STR_DIGITS) (map unescape (pointer_tokens p)).

Definition lenient_hit (doc : json) (p : str) : bool :=
  match p with
  | [] => false
  | c :: _ => N.eqb c SLASH && lenient_hit_walk doc (map unescape (pointer_tokens p))
  end.

(* ----- core.transforms.resolve_pointer as it is now (commits 5f4626e6, 6e969657) -----
   An array token is an index only if token.isascii() and token.isdigit() and it is 0 or has no leading zero
   (= canonical_index); then target[int(token)] with IndexError and ValueError (int() beyond sys.int_max_str_digits)
   both caught: UNRESOLVABLE. *)
Inductive wres := WOk (j : json) | WUnres.
Definition w_of_opt (o : option json) : wres := match o with Some j => WOk j | None => WUnres end.

Definition step_impl (target : json) (tok : str) : wres :=
  match target with
  | JObj kvs => w_of_opt (assoc_get tok kvs)
  | JArr l => match canonical_index tok with
              | None => WUnres
              | Some i => if (i <? Z.of_nat (length l))%Z then w_of_opt (nth_error l (Z.to_nat i))
                          else WUnres          (* IndexError, or ValueError for > 4300 digits: both caught.  Modelling assumption:
                                                  a Python list has fewer than 10^4300 elements, so such an index is out of range *)
              end
  | _ => WUnres
  end.

Fixpoint walk_w (target : json) (toks : list str) : wres :=
  match toks with
  | [] => WOk target
  | t :: r => match step_impl target t with WOk x => walk_w x r | other => other end
  end.

Definition resolve_pointer (doc : json) (p : str) : wres :=
  match p with
  | [] => WOk doc
  | c :: _ => if N.eqb c SLASH then walk_w doc (map unescape (pointer_tokens p)) else WUnres
  end.

(* ---------------------------------------------------------------------- *)
(* lexer.tokenize *)
Inductive ttype := TVar | TStr | TPtr | TDot | TLb | TRb.
Record token := { tkind : ttype; tv : str; tend : nat }.
Definition tok (ty : ttype) (v : str) (e : nat) : token := {| tkind := ty; tv := v; tend := e |}.

Definition is_stop (c : N) : bool := mem c [DOLLAR; DOT; LB; RB; HASH].
(* the predicate given to move_until for the token being read *)
Definition stops (ty : ttype) (c : N) : bool := match ty with TPtr => N.eqb c RB | _ => is_stop c end.

(* cur = the multi-character token being read (type, reversed characters) *)
Fixpoint lex (s : str) (pos : nat) (cur : option (ttype * str)) : list token :=
  match s with
  | [] => match cur with Some (ty, acc) => [tok ty (rev acc) (pos - 1)] | None => [] end
  | c :: s' =>
      let fresh :=
        if N.eqb c DOLLAR then lex s' (S pos) (Some (TVar, [c]))
        else if N.eqb c DOT then tok TDot [DOT] pos :: lex s' (S pos) None
        else if N.eqb c LB then tok TLb [LB] pos :: lex s' (S pos) None
        else if N.eqb c RB then tok TRb [RB] pos :: lex s' (S pos) None
        else if N.eqb c HASH then lex s' (S pos) (Some (TPtr, [c]))
        else lex s' (S pos) (Some (TStr, [c])) in
      match cur with
      | None => fresh
      | Some (ty, acc) =>
          if stops ty c then tok ty (rev acc) (pos - 1) :: fresh
          else lex s' (S pos) (Some (ty, c :: acc))
      end
  end.

Definition tokenize (e : str) : list token := lex e 0 None.

(* ---------------------------------------------------------------------- *)
(* parser *)
Inductive node :=
| NString (s : str)
| NUrl | NMethod | NStatus
| NReq (loc : str) (param : str) (ex : option str)     (* NonBodyRequest *)
| NReqBody (p : option str)
| NRespHeader (param : str) (ex : option str)
| NRespBody (p : option str).

Inductive perr :=
| ErrExpr       (* RuntimeExpressionError *)
| ErrUnknown    (* UnknownToken *)
| ErrStop.      (* RuntimeError: generator raised StopIteration *)

Inductive pres (A : Type) := POk (a : A) | PErr (e : perr).
Arguments POk {A} a.
Arguments PErr {A} e.

Definition s_url : str := [36;117;114;108].
Definition s_method : str := [36;109;101;116;104;111;100].
Definition s_status : str := [36;115;116;97;116;117;115;67;111;100;101].
Definition s_request : str := [36;114;101;113;117;101;115;116].
Definition s_response : str := [36;114;101;115;112;111;110;115;101].
Definition s_query : str := [113;117;101;114;121].
Definition s_path : str := [112;97;116;104].
Definition s_header : str := [104;101;97;100;101;114].
Definition s_body : str := [98;111;100;121].
Definition s_regex : str := [35;114;101;103;101;120;58].   (* #regex: *)

Definition in_strs (k : str) (l : list str) : bool := existsb (str_eqb k) l.

Definition is_ty (ty : ttype) (t : token) : bool :=
  match ty, tkind t with
  | TVar, TVar | TStr, TStr | TPtr, TPtr | TDot, TDot | TLb, TLb | TRb, TRb => true
  | _, _ => false
  end.

Section Parser.
  (* re.compile(pattern) succeeds and has exactly one group: foreign (module re) *)
  Variable rx_ok : str -> bool.

  Definition skip_dot (ts : list token) : pres (list token) :=
    match ts with
    | [] => PErr ErrStop
    | t :: r => if is_ty TDot t then POk r else PErr ErrExpr
    end.

  Definition take_string (ts : list token) : pres (token * list token) :=
    match ts with
    | [] => PErr ErrStop
    | t :: r => if is_ty TStr t then POk (t, r) else PErr ErrExpr
    end.

  Definition take_extractor (expr : str) (ts : list token) (cur_end : nat) : pres (option str * list token) :=
    match skipn (S cur_end) expr with
    | [] => POk (None, ts)
    | c :: _ =>
        if N.eqb c RB then POk (None, ts)
        else match ts with
             | [] => PErr ErrStop
             | t :: r =>
                 if starts_with s_regex (tv t)
                 then let pat := skipn 7 (tv t) in
                      if rx_ok pat then POk (Some pat, r) else PErr ErrExpr
                 else PErr ErrExpr
             end
    end.

  Definition parse_param (expr : str) (ts : list token) (mk : str -> option str -> node) : pres (node * list token) :=
    match skip_dot ts with
    | PErr e => PErr e
    | POk ts1 =>
        match take_string ts1 with
        | PErr e => PErr e
        | POk (p, ts2) =>
            match take_extractor expr ts2 (tend p) with
            | PErr e => PErr e
            | POk (ex, ts3) => POk (mk (tv p) ex, ts3)
            end
        end
    end.

  Definition parse_body (ts : list token) (mk : option str -> node) : pres (node * list token) :=
    match ts with
    | [] => POk (mk None, [])
    | t :: r => if is_ty TPtr t then POk (mk (Some (tv t)), r) else PErr ErrExpr
    end.

  Definition parse_request (expr : str) (ts : list token) : pres (node * list token) :=
    match skip_dot ts with
    | PErr e => PErr e
    | POk ts1 =>
        match ts1 with
        | [] => PErr ErrStop
        | loc :: ts2 =>
            if in_strs (tv loc) [s_query; s_path; s_header] then parse_param expr ts2 (NReq (tv loc))
            else if str_eqb (tv loc) s_body then parse_body ts2 NReqBody
            else PErr ErrExpr
        end
    end.

  Definition parse_response (expr : str) (ts : list token) : pres (node * list token) :=
    match skip_dot ts with
    | PErr e => PErr e
    | POk ts1 =>
        match ts1 with
        | [] => PErr ErrStop
        | loc :: ts2 =>
            if str_eqb (tv loc) s_header then parse_param expr ts2 NRespHeader
            else if str_eqb (tv loc) s_body then parse_body ts2 NRespBody
            else PErr ErrExpr
        end
    end.

  Definition parse_variable (expr : str) (t : token) (ts : list token) : pres (node * list token) :=
    if str_eqb (tv t) s_url then POk (NUrl, ts)
    else if str_eqb (tv t) s_method then POk (NMethod, ts)
    else if str_eqb (tv t) s_status then POk (NStatus, ts)
    else if str_eqb (tv t) s_request then parse_request expr ts
    else if str_eqb (tv t) s_response then parse_response expr ts
    else PErr ErrUnknown.

  Definition cons_ok (n : node) (r : option (pres (list node))) : option (pres (list node)) :=
    match r with
    | Some (POk l) => Some (POk (n :: l))
    | other => other
    end.

  (* _parse: opened = the brackets stack is non-empty.  None = out of fuel. *)
  Fixpoint parse_loop (fuel : nat) (expr : str) (ts : list token) (opened : bool) : option (pres (list node)) :=
    match fuel with
    | O => None
    | S f =>
        match ts with
        | [] => Some (if opened then PErr ErrExpr else POk [])
        | t :: r =>
            match tkind t with
            | TStr | TDot => cons_ok (NString (tv t)) (parse_loop f expr r opened)
            | TVar => match parse_variable expr t r with
                      | PErr e => Some (PErr e)
                      | POk (n, r') => cons_ok n (parse_loop f expr r' opened)
                      end
            | TLb => if opened then Some (PErr ErrExpr) else parse_loop f expr r true
            | TRb => if opened then parse_loop f expr r false else Some (PErr ErrExpr)
            | TPtr => parse_loop f expr r opened    (* no branch for a pointer token: skipped *)
            end
        end
    end.

  Definition parse (expr : str) : option (pres (list node)) :=
    let ts := tokenize expr in parse_loop (S (length ts)) expr ts false.
End Parser.

(* ---------------------------------------------------------------------- *)
(* evaluation *)
Definition dict := list (str * value).

Record ctx := {
  c_url : str;                         (* requests.Request(..).prepare().url : foreign *)
  c_method : str;                      (* operation.method *)
  c_status : Z;                        (* response.status_code *)
  c_query : option (list (str * pval));     (* None = the container itself is None; a name may be absent, or present with
                                               ANY value: null, falsy (0, 0.0, empty string, false, [], {}) or truthy *)
  c_path : option (list (str * pval));
  c_headers : option (list (str * pval));
  c_body : value;                      (* case.body: VJ or VNotSet *)
  r_headers : list (str * list str);   (* response.headers: lower-cased name -> values *)
  r_body : option json                 (* response.json(); None = it raises *)
}.

Inductive outcome :=
| OVal (v : value)
| OParseErr (e : perr)     (* the expression is rejected by the parser *)
| ORaise.                  (* another exception during evaluation (TypeError, JSONDecodeError, IndexError) *)

Definition ptr_outcome (w : wres) : outcome :=
  match w with WOk j => OVal (VJ j) | WUnres => OVal VUnres end.

(* decimal rendering of integers *)
Fixpoint uint_digits (u : Decimal.uint) : str :=
  match u with
  | Decimal.Nil => []
  | Decimal.D0 r => 48 :: uint_digits r | Decimal.D1 r => 49 :: uint_digits r
  | Decimal.D2 r => 50 :: uint_digits r | Decimal.D3 r => 51 :: uint_digits r
  | Decimal.D4 r => 52 :: uint_digits r | Decimal.D5 r => 53 :: uint_digits r
  | Decimal.D6 r => 54 :: uint_digits r | Decimal.D7 r => 55 :: uint_digits r
  | Decimal.D8 r => 56 :: uint_digits r | Decimal.D9 r => 57 :: uint_digits r
  end.
Definition N_str (n : N) : str := uint_digits (N.to_uint n).
Definition Z_str (z : Z) : str :=
  match z with
  | Z0 => [48]
  | Zpos p => N_str (Npos p)
  | Zneg p => 45 :: N_str (Npos p)
  end.

(* last binding whose lower-cased key equals the lower-cased name: CaseInsensitiveDict(container).get *)
Fixpoint ci_get {A} (k : str) (l : list (str * A)) (found : option A) : option A :=
  match l with
  | [] => found
  | (k', v) :: r => ci_get k r (if str_eqb (lower_ascii k') (lower_ascii k) then Some v else found)
  end.

Section Eval.
  Variable rx_ok : str -> bool.
  (* pattern.search(subject) and group(1); None = no match or the group did not take part *)
  Variable rx_extract : str -> str -> option str.
  Variable cx : ctx.

  Definition apply_extractor (ex : option str) (v : json) : outcome :=
    match ex with
    | None => OVal (VJ v)
    | Some pat =>
        match v with
        | JStr s => match rx_extract pat s with
                    | Some [] => OVal VUnres        (* empty string or UNRESOLVABLE *)
                    | Some g => OVal (VJ (JStr g))
                    | None => OVal VUnres
                    end
        | _ => ORaise      (* re.search on a non-string: TypeError *)
        end
    end.

  Definition eval_node (n : node) : outcome :=
    match n with
    | NString s => OVal (VJ (JStr s))
    | NUrl => OVal (VJ (JStr (c_url cx)))
    | NMethod => OVal (VJ (JStr (upper_ascii (c_method cx))))
    | NStatus => OVal (VJ (JStr (Z_str (c_status cx))))
    | NReq loc param ex =>
        let container :=
          if str_eqb loc s_query then c_query cx
          else if str_eqb loc s_path then c_path cx
          else c_headers cx in
        let container := match container with Some d => d | None => [] end in
        let found := if str_eqb loc s_header then ci_get param container None else assoc_get param container in
        match found with
        | None | Some (PJ JNull) => OVal VUnres                 (* if value is None: return UNRESOLVABLE - absent, or null *)
        | Some (PJ v) => apply_extractor ex v                   (* every other value, falsy or not, is returned as it is *)
        | Some (PFloat r) => match ex with None => OVal (VFloat r) | Some _ => ORaise end   (* re.search on a float: TypeError *)
        end
    | NReqBody None => OVal (c_body cx)
    | NReqBody (Some p) =>
        match c_body cx with
        | VJ doc => ptr_outcome (resolve_pointer doc (tl p))
        | VNotSet => match tl p with [] => OVal VNotSet | _ => OVal VUnres end
        | other => OVal other
        end
    | NRespHeader param ex =>
        match assoc_get (lower_ascii param) (r_headers cx) with
        | None => OVal VUnres
        | Some [] => ORaise
        | Some (v :: _) => apply_extractor ex (JStr v)
        end
    | NRespBody p =>
        match r_body cx with
        | None => ORaise
        | Some doc => match p with None => OVal (VJ doc) | Some p => ptr_outcome (resolve_pointer doc (tl p)) end
        end
    end.

  (* str(part); None = outside the modelled fragment *)
  Definition py_str (v : value) : option str :=
    match v with
    | VJ (JStr s) => Some s
    | VJ (JInt z) => Some (Z_str z)
    | VJ (JBool true) => Some [84;114;117;101]
    | VJ (JBool false) => Some [70;97;108;115;101]
    | VJ JNull => Some []          (* skipped by the join *)
    | VFloat r => Some r
    | _ => None
    end.

  Definition is_unres (v : value) : bool := match v with VUnres => true | _ => false end.

  Fixpoint eval_nodes (ns : list node) : pres (list value) + unit :=   (* inr tt = ORaise *)
    match ns with
    | [] => inl (POk [])
    | n :: r =>
        match eval_node n with
        | OVal v => match eval_nodes r with
                    | inl (POk vs) => inl (POk (v :: vs))
                    | other => other
                    end
        | OParseErr e => inl (PErr e)
        | ORaise => inr tt
        end
    end.

  Fixpoint join_parts (vs : list value) : option str :=
    match vs with
    | [] => Some []
    | v :: r => match py_str v, join_parts r with
                | Some a, Some b => Some (a ++ b)
                | _, _ => None
                end
    end.

  Definition combine (vs : list value) : value :=
    match vs with
    | [v] => v
    | _ => if existsb is_unres vs then VUnres
           else match join_parts vs with Some s => VJ (JStr s) | None => VOpaque end
    end.

  Definition eval_str (e : str) : outcome :=
    match parse rx_ok e with
    | None => ORaise
    | Some (PErr err) => OParseErr err
    | Some (POk ns) =>
        match eval_nodes ns with
        | inl (POk vs) => OVal (combine vs)
        | inl (PErr err) => OParseErr err
        | inr _ => ORaise
        end
    end.

  (* _evaluate_object_key *)
  Definition key_of (o : outcome) : outcome :=
    match o with
    | OVal (VJ (JStr s)) => o
    | OVal (VJ (JBool true)) => OVal (VJ (JStr [116;114;117;101]))
    | OVal (VJ (JBool false)) => OVal (VJ (JStr [102;97;108;115;101]))
    | OVal (VJ (JInt z)) => OVal (VJ (JStr (Z_str z)))
    | OVal (VJ JNull) => OVal (VJ (JStr [110;117;108;108]))
    | OVal (VJ _) => OVal VOpaque        (* json.dumps of a container *)
    | OVal (VFloat r) => OVal (VJ (JStr r))    (* str(float) *)
    | OVal VUnres => o
    | OVal VNotSet => ORaise             (* json.dumps(NOT_SET): TypeError *)
    | other => other
    end.

  (* evaluate(expr, output, evaluate_nested=True).  opq = some part evaluated to a Python value outside the modelled
     fragment (NOT_SET, json.dumps of a container used as key): evaluation goes on (a later part may still raise or be
     unresolvable) and the result is VOpaque *)
  Fixpoint eval_nested (e : json) : outcome :=
    match e with
    | JStr s => eval_str s
    | JArr l =>
        (fix go (l : list json) (acc : list json) (opq : bool) : outcome :=
           match l with
           | [] => if opq then OVal VOpaque else OVal (VJ (JArr (rev acc)))
           | x :: r => match eval_nested x with
                       | OVal (VJ j) => go r (j :: acc) opq
                       | OVal VUnres => OVal VUnres
                       | OVal _ => go r acc true
                       | other => other
                       end
           end) l [] false
    | JObj kvs =>
        (fix go (l : list (str * json)) (acc : list (str * json)) (opq : bool) : outcome :=
           match l with
           | [] => if opq then OVal VOpaque else OVal (VJ (JObj acc))
           | (k, x) :: r =>
               match key_of (eval_str k) with
               | OVal VUnres => OVal VUnres
               | OVal kv =>
                   match eval_nested x with
                   | OVal (VJ j) => match kv with
                                    | VJ (JStr k') => go r (assoc_set k' j acc) opq
                                    | _ => go r acc true
                                    end
                   | OVal VUnres => OVal VUnres
                   | OVal _ => go r acc true
                   | other => other
                   end
               | other => other
               end
           end) kvs [] false
    | other => OVal (VJ other)
    end.

  (* expressions.evaluate *)
  Definition evaluate (e : json) (nested : bool) : outcome :=
    match e with
    | JStr s => eval_str s
    | JArr _ | JObj _ => if nested then eval_nested e else OVal (VJ e)
    | other => OVal (VJ other)
    end.

  (* ------------------------------------------------------------------ *)
  (* links.py: extract_parameters / extract_body; stateful/__init__.py: into_step_input *)
  Record lparam := { lp_container : str; lp_name : str; lp_expr : json }.
  Record link := { l_params : list lparam; l_body : option json; l_merge : bool }.

  Inductive xval := XOk (v : value) | XErr.      (* Result[Any, Exception] *)
  Definition to_xval (o : outcome) : xval := match o with OVal v => XOk v | _ => XErr end.

  Definition extracted := list (str * list (str * xval)).

  Definition set_extracted (c n : str) (x : xval) (e : extracted) : extracted :=
    let inner := match assoc_get c e with Some d => d | None => [] end in
    assoc_set c (assoc_set n x inner) e.

  Definition extract_parameters (l : link) : extracted :=
    fold_left (fun acc p => set_extracted (lp_container p) (lp_name p) (to_xval (evaluate (lp_expr p) false)) acc)
              (l_params l) [].

  Definition extract_body (l : link) : option xval :=
    match l_body l with Some b => Some (to_xval (evaluate b true)) | None => None end.

  (* the value survives the filter of into_step_input *)
  Definition sendable (x : xval) : option value :=
    match x with
    | XOk (VJ JNull) => None
    | XOk VUnres => None
    | XOk v => Some v
    | XErr => None
    end.

  Fixpoint keep_sendable (d : list (str * xval)) : dict :=
    match d with
    | [] => []
    | (n, x) :: r => match sendable x with Some v => (n, v) :: keep_sendable r | None => keep_sendable r end
    end.

  Definition kwargs_of (e : extracted) : list (str * dict) := map (fun cd => (fst cd, keep_sendable (snd cd))) e.

  Definition body_ready (xb : option xval) : option value :=
    match xb with
    | Some (XOk v) => if is_unres v then None else Some v
    | _ => None
    end.
End Eval.

(* ---------------------------------------------------------------------- *)
(* reference for nested link bodies: what each leaf string (value or key) evaluates to on its own, substituted
   structurally at every depth; the whole is UNRESOLVABLE as soon as one leaf is *)
Section Nested.
  Variable rx_ok : str -> bool.
  Variable rx_extract : str -> str -> option str.
  Variable cx : ctx.

  Definition ev (s : str) : outcome := eval_str rx_ok rx_extract cx s.
  Definition evk (k : str) : outcome := key_of (ev k).
  Definition is_unres_o (o : outcome) : bool := match o with OVal VUnres => true | _ => false end.
  Definition leaf_value (s : str) : json := match ev s with OVal (VJ j) => j | _ => JNull end.
  Definition leaf_key (k : str) : str := match evk k with OVal (VJ (JStr s)) => s | _ => [] end.
  (* the leaf evaluates to a JSON value or to UNRESOLVABLE (no exception, nothing outside the modelled fragment) *)
  Definition value_ok (s : str) : bool := match ev s with OVal (VJ _) | OVal VUnres => true | _ => false end.
  Definition key_ok (k : str) : bool := match evk k with OVal (VJ (JStr _)) | OVal VUnres => true | _ => false end.

  Fixpoint leaves_ok (e : json) : bool :=
    match e with
    | JStr s => value_ok s
    | JArr l => forallb leaves_ok l
    | JObj kvs => forallb (fun kv => key_ok (fst kv) && leaves_ok (snd kv)) kvs
    | _ => true
    end.

  Fixpoint has_unres (e : json) : bool :=
    match e with
    | JStr s => is_unres_o (ev s)
    | JArr l => existsb has_unres l
    | JObj kvs => existsb (fun kv => is_unres_o (evk (fst kv)) || has_unres (snd kv)) kvs
    | _ => false
    end.

  Fixpoint subst_nested (e : json) : json :=
    match e with
    | JStr s => leaf_value s
    | JArr l => JArr (map subst_nested l)
    | JObj kvs => JObj (fold_left (fun acc kv => assoc_set (leaf_key (fst kv)) (subst_nested (snd kv)) acc) kvs [])
    | other => other
    end.
End Nested.

(* get_parameters_value: explicit = the kwarg for the location (None = NOT_SET);
   gen excl = what the strategy for that location draws when the names excl are excluded (foreign) *)
Definition parameters_value (explicit : option dict) (gen : list str -> option dict) : option dict :=
  match explicit with
  | None | Some [] => gen []
  | Some v => match gen (map fst v) with
              | Some new => Some (assoc_update v new)
              | None => Some v
              end
  end.

(* the body of the case returned by into_step_input; gen_body = the generated body *)
Definition final_body (merge : bool) (ready : option value) (gen_body : value) : value :=
  match ready with
  | None => gen_body
  | Some new =>
      if merge then
        match gen_body, new with
        | VJ (JObj g), VJ (JObj n) => VJ (JObj (assoc_update g n))
        | _, _ => new
        end
      else new
  end.

Definition final_container (kw : list (str * dict)) (c : str) (gen : list str -> option dict) : option dict :=
  parameters_value (assoc_get c kw) gen.

(* Case.headers is a CaseInsensitiveDict: names equal up to case collapse, the last value (and spelling) wins *)
Fixpoint ci_set (k : str) (v : value) (l : dict) : dict :=
  match l with
  | [] => [(k, v)]
  | (k', v') :: r => if str_eqb (lower_ascii k) (lower_ascii k') then (k, v) :: r else (k', v') :: ci_set k v r
  end.
Definition ci_collapse (d : dict) : dict := fold_left (fun acc kv => ci_set (fst kv) (snd kv) acc) d [].
Definition s_headers : str := [104;101;97;100;101;114;115].
Definition final_headers (kw : list (str * dict)) (gen : list str -> option dict) : option dict :=
  option_map ci_collapse (final_container kw s_headers gen).
Fixpoint ci_lookup (k : str) (d : dict) : option value :=
  match d with
  | [] => None
  | (k', v) :: r => if str_eqb (lower_ascii k) (lower_ascii k') then Some v else ci_lookup k r
  end.

(* ---------------------------------------------------------------------- *)
(* status codes: utils.expand_status_code, match_status_code, default_status_code, make_response_matcher *)
Definition digit_chars : list N := [48;49;50;51;52;53;54;55;56;57].

Fixpoint product (cs : list (list N)) : list str :=
  match cs with
  | [] => [[]]
  | c :: r => flat_map (fun x => map (fun t => x :: t) (product r)) c
  end.

(* None = int() raises ValueError *)
Fixpoint all_some {A} (l : list (option A)) : option (list A) :=
  match l with
  | [] => Some []
  | Some x :: r => match all_some r with Some t => Some (x :: t) | None => None end
  | None :: _ => None
  end.

Definition expand_status_code (key : str) : option (list Z) :=
  all_some (map py_int (product (map (fun c => if N.eqb c 88 then digit_chars else [c]) (upper_ascii key)))).

Definition s_default : str := [100;101;102;97;117;108;116].

Definition match_status_code (key : str) (code : Z) : option bool :=
  match expand_status_code key with Some l => Some (existsb (Z.eqb code) l) | None => None end.

Definition default_status_code (keys : list str) (code : Z) : option bool :=
  match all_some (map expand_status_code (filter (fun k => negb (str_eqb k s_default)) keys)) with
  | Some ls => Some (negb (existsb (Z.eqb code) (concat ls)))
  | None => None
  end.

Definition response_filter (key : str) (keys : list str) (code : Z) : option bool :=
  if str_eqb key s_default then default_status_code keys code else match_status_code key code.

(* make_response_matcher over the status codes of the outgoing links, in order: the bundle that receives the response *)
Fixpoint bundle_of (link_keys : list str) (keys : list str) (code : Z) : option str :=
  match link_keys with
  | [] => None
  | k :: r => match response_filter k keys code with
              | Some true => Some k
              | _ => bundle_of r keys code
              end
  end.

(* create_state_machine: the wiring of the filters.  An operation = its documented response keys, in order, each with
   the number of links it carries (links whose target is selected).  The filters of ALL link bundles are built against
   tuple(operation.definition.raw[responses]) = every documented key, with or without links; the matcher goes through the
   outgoing links in document order. *)
Definition opdef := list (str * nat).
Definition documented_keys (op : opdef) : list str := map fst op.
Definition outgoing_keys (op : opdef) : list str := flat_map (fun kn => repeat (fst kn) (snd kn)) op.
Definition machine_bundle (op : opdef) (code : Z) : option str :=
  bundle_of (outgoing_keys op) (documented_keys op) code.

(* ----- reference: the OpenAPI meaning of a response key ----- *)
Definition key_char_ok (c : N) : bool := is_digit c || N.eqb c 88 || N.eqb c 120.
Definition wf_key (k : str) : bool :=
  match k with [a; b; c] => key_char_ok a && key_char_ok b && key_char_ok c | _ => false end.
Definition wf_keys (ks : list str) : bool := forallb (fun k => str_eqb k s_default || wf_key k) ks.

Definition digit_matches (pat : N) (d : Z) : bool :=
  if is_digit pat then Z.eqb d (Z.of_N (pat - 48)) else true.     (* X or x: any digit *)

Definition key_matches (k : str) (code : Z) : bool :=
  match k with
  | [a; b; c] =>
      (0 <=? code)%Z && (code <? 1000)%Z
      && digit_matches a (code / 100)%Z && digit_matches b ((code / 10) mod 10)%Z && digit_matches c (code mod 10)%Z
  | _ => false
  end.

Definition spec_matches (key : str) (keys : list str) (code : Z) : bool :=
  if str_eqb key s_default
  then forallb (fun k => str_eqb k s_default || negb (key_matches k code)) keys
  else key_matches key code.

(* ---------------------------------------------------------------------- *)
(* reference grammar of runtime expressions (OpenAPI ABNF + the #regex: extension) *)
Inductive ploc := LQuery | LPath | LHeader.
Inductive rexpr :=
| RUrl | RMethod | RStatus
| RReq (l : ploc) (name : str) (rx : option str)
| RReqBody (ptr : option str)          (* ptr = the JSON pointer after the # *)
| RRespHeader (name : str) (rx : option str)
| RRespBody (ptr : option str).

Definition loc_str (l : ploc) : str := match l with LQuery => s_query | LPath => s_path | LHeader => s_header end.
Definition print_rx (rx : option str) : str := match rx with Some p => s_regex ++ p | None => [] end.
Definition print_ptr (p : option str) : str := match p with Some p => HASH :: p | None => [] end.

Definition print (e : rexpr) : str :=
  match e with
  | RUrl => s_url
  | RMethod => s_method
  | RStatus => s_status
  | RReq l name rx => s_request ++ [DOT] ++ loc_str l ++ [DOT] ++ name ++ print_rx rx
  | RReqBody p => s_request ++ [DOT] ++ s_body ++ print_ptr p
  | RRespHeader name rx => s_response ++ [DOT] ++ s_header ++ [DOT] ++ name ++ print_rx rx
  | RRespBody p => s_response ++ [DOT] ++ s_body ++ print_ptr p
  end.

Definition node_of (e : rexpr) : node :=
  match e with
  | RUrl => NUrl
  | RMethod => NMethod
  | RStatus => NStatus
  | RReq l name rx => NReq (loc_str l) name rx
  | RReqBody p => NReqBody (option_map (cons HASH) p)
  | RRespHeader name rx => NRespHeader name rx
  | RRespBody p => NRespBody (option_map (cons HASH) p)
  end.

(* ABNF well-formedness: name = *CHAR (header: token = 1*tchar); json-pointer per RFC 6901 *)
Definition tchar (c : N) : bool :=
  is_digit c || is_upper c || is_lower c || mem c [33;35;36;37;38;39;42;43;45;46;94;95;96;124;126].
Definition pointer_syntax (p : str) : bool :=     (* empty or starts with / ; escapes valid *)
  match p with [] => true | c :: _ => N.eqb c SLASH && valid_escapes p end.
Definition abnf_ok (e : rexpr) : bool :=
  match e with
  | RReq LHeader name _ => match name with [] => false | _ => forallb tchar name end
  | RRespHeader name _ => match name with [] => false | _ => forallb tchar name end
  | RReqBody (Some p) | RRespBody (Some p) => pointer_syntax p
  | _ => true
  end.

(* the region in which the implementation reads a printed expression back *)
Definition no_stop (s : str) : bool := forallb (fun c => negb (is_stop c)) s.
Definition no_rb (s : str) : bool := forallb (fun c => negb (N.eqb c RB)) s.
Definition name_ok (s : str) : bool := match s with [] => false | _ => no_stop s end.
Definition rx_region (rx_ok : str -> bool) (rx : option str) : bool :=
  match rx with Some p => no_rb p && rx_ok p | None => true end.
Definition ptr_region (p : option str) : bool := match p with Some p => no_rb p | None => true end.

Definition simple_expr (rx_ok : str -> bool) (e : rexpr) : bool :=
  match e with
  | RReq _ name rx => name_ok name && rx_region rx_ok rx
  | RRespHeader name rx => name_ok name && rx_region rx_ok rx
  | RReqBody p | RRespBody p => ptr_region p
  | _ => true
  end.

(* templates: text with embedded {expression} parts *)
Inductive titem := TText (s : str) | TEmb (e : rexpr).
Definition print_item (i : titem) : str := match i with TText s => s | TEmb e => LB :: print e ++ [RB] end.
Definition print_tpl (t : list titem) : str := flat_map print_item t.
Definition item_node (i : titem) : node := match i with TText s => NString s | TEmb e => node_of e end.

Definition has_ptr_or_rx (e : rexpr) : bool :=
  match e with
  | RReq _ _ (Some _) | RRespHeader _ (Some _) | RReqBody (Some _) | RRespBody (Some _) => true
  | _ => false
  end.
(* an embedded $request.body / $response.body without pointer is rejected by the implementation *)
Definition emb_ok (rx_ok : str -> bool) (e : rexpr) : bool :=
  simple_expr rx_ok e && match e with RReqBody None | RRespBody None => false | _ => true end.
Definition item_ok (rx_ok : str -> bool) (i : titem) : bool :=
  match i with TText s => name_ok s | TEmb e => emb_ok rx_ok e end.
(* no two adjacent text items (they would print as one) *)
Fixpoint tpl_shape (t : list titem) : bool :=
  match t with
  | TText _ :: TText _ :: _ => false
  | _ :: r => tpl_shape r
  | [] => true
  end.
Definition tpl_ok (rx_ok : str -> bool) (t : list titem) : bool := forallb (item_ok rx_ok) t && tpl_shape t.

(* ---------------------------------------------------------------------- *)
(* reference semantics of an expression on a source exchange (pointers per RFC 6901) *)
Section Denote.
  Variable rx_extract : str -> str -> option str.
  Variable cx : ctx.

  Definition denote_ptr (doc : json) (p : option str) : value :=
    match p with None => VJ doc | Some p => of_opt (rfc6901 doc p) end.

  Definition denote_extract (rx : option str) (v : json) : outcome :=
    match rx with
    | None => OVal (VJ v)
    | Some pat =>
        match v with
        | JStr s => match rx_extract pat s with
                    | Some (c :: g) => OVal (VJ (JStr (c :: g)))
                    | _ => OVal VUnres
                    end
        | _ => ORaise
        end
    end.

  (* the value the source request carries for a parameter: None = the request has no such parameter.  Header names are
     case-insensitive (the last spelling wins, as in CaseInsensitiveDict(dict)) *)
  Definition source_param (l : ploc) (name : str) : option pval :=
    match l with
    | LQuery => assoc_get name (match c_query cx with Some d => d | None => [] end)
    | LPath => assoc_get name (match c_path cx with Some d => d | None => [] end)
    | LHeader => ci_get name (match c_headers cx with Some d => d | None => [] end) None
    end.

  Definition denote (e : rexpr) : outcome :=
    match e with
    | RUrl => OVal (VJ (JStr (c_url cx)))
    | RMethod => OVal (VJ (JStr (upper_ascii (c_method cx))))
    | RStatus => OVal (VJ (JStr (Z_str (c_status cx))))
    | RReq l name rx =>
        match source_param l name with
        | None | Some (PJ JNull) => OVal VUnres       (* absent, or null: nothing to pass *)
        | Some (PJ v) => denote_extract rx v          (* present: THAT value, whatever its truthiness *)
        | Some (PFloat r) => match rx with None => OVal (VFloat r) | Some _ => ORaise end
        end
    | RReqBody p =>
        match c_body cx with
        | VJ doc => OVal (denote_ptr doc p)
        | VNotSet => match p with None | Some [] => OVal VNotSet | Some _ => OVal VUnres end
        | other => OVal other
        end
    | RRespHeader name rx =>
        match assoc_get (lower_ascii name) (r_headers cx) with
        | None => OVal VUnres
        | Some [] => ORaise
        | Some (v :: _) => denote_extract rx (JStr v)
        end
    | RRespBody p =>
        match r_body cx with
        | None => ORaise
        | Some doc => OVal (denote_ptr doc p)
        end
    end.

  (* the pointer of the expression has valid escapes *)
  Definition ptr_strict (e : rexpr) : bool :=
    match e with
    | RReqBody (Some p) =>
        match c_body cx with VJ _ => valid_escapes p | _ => true end
    | RRespBody (Some p) =>
        match r_body cx with Some _ => valid_escapes p | None => true end
    | _ => true
    end.
End Denote.

(* membership in the grammar  value = expression / template : a template is text (no dollar, no braces)
   interleaved with embedded {expression} parts.  Logical definition, used by the refutation theorems. *)
Definition text_ok (s : str) : bool :=
  match s with [] => false | _ => forallb (fun c => negb (mem c [DOLLAR; LB; RB])) s end.
Definition gitem_ok (i : titem) : bool := match i with TText s => text_ok s | TEmb e => abnf_ok e end.
Definition in_grammar (s : str) : Prop :=
  (exists e, abnf_ok e = true /\ s = print e) \/ (exists t, forallb gitem_ok t = true /\ s = print_tpl t).

(* ---------------------------------------------------------------------- *)
(* The link OBJECT over a history of evaluations (links.py:149-175).
   OpenApiLink.extract = lru_cache(8)(_extract_impl) keyed by the case id of the source exchange
   (StepOutputWrapper.__hash__ / __eq__); a Transition holds REFERENCES to its inner name -> ExtractedParam dicts,
   so the model carries a Python heap of inner dicts: what a Transition says is what the heap holds when it is read.
   src = a source exchange (StepOutput); cid = its case id (any injective encoding); fresh / fresh_body = what
   extract_parameters / extract_body compute on that exchange alone.
   shared = false: the code as it is - extract_parameters starts from a new dict and setdefault creates new inner dicts
                   on every extraction;
   shared = true : REGRESSION SENTINEL - the inner dicts are created once per link object (one per container name) and
                   every extraction writes into them (a shallow copy of a prebuilt container layout). *)
Section LinkObject.
  Variable src : Type.
  Variable cid : src -> N.
  Variable fresh : src -> extracted.
  Variable fresh_body : src -> option xval.
  Variable cap : nat.                      (* lru_cache(8) *)
  Variable shared : bool.
  Variable containers : list str.          (* container names of the link parameters (used by the shared variant) *)

  Definition inner := list (str * xval).
  Definition heap := list inner.
  (* a Transition object: parent_id, parameters = container -> reference to an inner dict, request_body *)
  Record tobj := { t_parent : N; t_params : list (str * nat); t_body : option xval }.
  Record lstate := { ls_heap : heap; ls_memo : list (N * tobj) }.     (* memo: most recently used first *)
  (* what a reader of the Transition sees *)
  Definition tview := (N * extracted * option xval)%type.

  Definition read (h : heap) (t : tobj) : tview :=
    (t_parent t, map (fun cr => (fst cr, nth (snd cr) h [])) (t_params t), t_body t).

  Definition fresh_view (x : src) : tview := (cid x, fresh x, fresh_body x).

  (* new inner dicts for every extraction *)
  Definition alloc (h : heap) (e : extracted) : heap * list (str * nat) :=
    (h ++ map snd e, List.combine (map fst e) (seq (length h) (length e))).

  (* the shared variant *)
  Definition shared_refs : list (str * nat) := List.combine containers (seq 0 (length containers)).
  Fixpoint heap_set (r : nat) (d : inner) (h : heap) : heap :=
    match h, r with
    | [], _ => []
    | _ :: t, O => d :: t
    | x :: t, S r' => x :: heap_set r' d t
    end.
  Definition write_shared (h : heap) (e : extracted) : heap :=
    fold_left (fun h cd => match assoc_get (fst cd) shared_refs with
                           | Some r => heap_set r (assoc_update (nth r h []) (snd cd)) h
                           | None => h
                           end) e h.

  Definition init_heap : heap := if shared then map (fun _ => []) containers else [].
  Definition link_init : lstate := {| ls_heap := init_heap; ls_memo := [] |}.

  (* _extract_impl *)
  Definition extract_impl (h : heap) (x : src) : heap * tobj :=
    if shared then
      (write_shared h (fresh x), {| t_parent := cid x; t_params := shared_refs; t_body := fresh_body x |})
    else
      let (h1, refs) := alloc h (fresh x) in
      (h1, {| t_parent := cid x; t_params := refs; t_body := fresh_body x |}).

  Fixpoint memo_get (k : N) (m : list (N * tobj)) : option tobj :=
    match m with
    | [] => None
    | (k1, t) :: r => if N.eqb k k1 then Some t else memo_get k r
    end.
  Definition memo_drop (k : N) (m : list (N * tobj)) : list (N * tobj) :=
    filter (fun e => negb (N.eqb k (fst e))) m.

  (* OpenApiLink.extract: a hit returns the memoised OBJECT (and makes it most recent); a miss computes, stores, evicts
     the least recently used entry beyond cap *)
  Definition link_extract (st : lstate) (x : src) : lstate * tobj :=
    match memo_get (cid x) (ls_memo st) with
    | Some t => ({| ls_heap := ls_heap st; ls_memo := (cid x, t) :: memo_drop (cid x) (ls_memo st) |}, t)
    | None =>
        let (h1, t) := extract_impl (ls_heap st) x in
        ({| ls_heap := h1; ls_memo := firstn cap ((cid x, t) :: ls_memo st) |}, t)
    end.

  (* a history of evaluations; every returned object is kept together with what it said when it was returned *)
  Fixpoint link_run (st : lstate) (xs : list src) : lstate * list (tobj * tview) :=
    match xs with
    | [] => (st, [])
    | x :: r =>
        let (st1, t) := link_extract st x in
        let (st2, ts) := link_run st1 r in
        (st2, (t, read (ls_heap st1) t) :: ts)
    end.

  Definition views_at_return (xs : list src) : list tview := map snd (snd (link_run link_init xs)).
  (* the same objects read again after the whole history *)
  Definition views_at_end (xs : list src) : list tview :=
    let (st, ts) := link_run link_init xs in map (fun tv => read (ls_heap st) (fst tv)) ts.
End LinkObject.

(* container names of a link in first-occurrence order *)
Definition link_containers (l : link) : list str :=
  map fst (fold_left (fun acc p => assoc_set (lp_container p) tt acc) (l_params l) []).

(* the instance the harness evaluates: the live source exchanges are a table of contexts, a source is named by its index
   (= its case id), extraction is extract_parameters / extract_body of the link on that context *)
Definition ctx_none : ctx :=
  {| c_url := []; c_method := []; c_status := 0%Z; c_query := None; c_path := None; c_headers := None;
     c_body := VNotSet; r_headers := []; r_body := None |}.
Definition ctx_at (tbl : list ctx) (k : N) : ctx := nth (N.to_nat k) tbl ctx_none.
Definition link_history (rx_ok : str -> bool) (rx_extract : str -> str -> option str) (l : link) (shared : bool)
                        (tbl : list ctx) (xs : list N) : list tview * list tview :=
  let f := fun k : N => extract_parameters rx_ok rx_extract (ctx_at tbl k) l in
  let fb := fun k : N => extract_body rx_ok rx_extract (ctx_at tbl k) l in
  (views_at_return N (fun k => k) f fb 8 shared (link_containers l) xs,
   views_at_end N (fun k => k) f fb 8 shared (link_containers l) xs).
(* what each source denotes on its own: a fresh evaluation of the link on that exchange only *)
Definition link_fresh_views (rx_ok : str -> bool) (rx_extract : str -> str -> option str) (l : link)
                            (tbl : list ctx) (xs : list N) : list tview :=
  map (fun k => (k, extract_parameters rx_ok rx_extract (ctx_at tbl k) l, extract_body rx_ok rx_extract (ctx_at tbl k) l)) xs.
