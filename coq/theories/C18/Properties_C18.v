(* C18 property theorems only.  Each is closed by [exact] of a lemma of
   Proofs_C18 and followed by Print Assumptions. *)
From Coq Require Import List NArith Bool.
From Verif Require Import Common.Str C18.Model_C18 C18.Proofs_C18.
Import ListNotations.
Open Scope N_scope.

(* find_related yields every node of the scenario tree of the case except the case itself, each exactly once,
   whatever the shape of the forest - when the case is a root or a leaf (the situation of a check that runs
   right after the response was recorded) *)
Theorem C18_find_related_is_tree_partial : forall h c,
  wf h = true -> In c h -> (is_root c || is_leaf h c) = true ->
  exists l, find_related h (n_id c) = Some l /\ NoDup (map n_id l) /\
    forall n, In n l <-> (In n h /\ n_id n <> n_id c /\ same_tree h n c = true).
Proof. exact find_related_is_tree. Qed.
Print Assumptions C18_find_related_is_tree_partial.

(* ... and for a case in the middle of a chain its own subtree is skipped *)
Theorem C18_find_related_is_tree_refuted : exists h c n,
  wf h = true /\ In c h /\ In n h /\ n_id n <> n_id c /\ same_tree h n c = true /\
  option_map (map n_id) (find_related h (n_id c)) = Some [1].
Proof. exists h_chain, c_mid, n_below. exact find_related_refuted. Qed.
Print Assumptions C18_find_related_is_tree_refuted.

(* the path heuristic (removesuffix rule, e735a769) is the same-resource-prefix relation when no two compared segments
   differ only in one trailing s and every identifier segment resolves *)
Theorem C18_prefix_is_resource_prefix_partial : forall lp lv rp rv,
  prefix_region lp lv rp rv = true -> is_prefix lp lv rp rv = Some (resource_prefix lp lv rp rv).
Proof. exact prefix_partial. Qed.
Print Assumptions C18_prefix_is_resource_prefix_partial.

(* in every case it accepts what the reference accepts *)
Theorem C18_prefix_lenient : forall lp lv rp rv,
  resource_prefix lp lv rp rv = true -> is_prefix lp lv rp rv = Some true.
Proof. exact prefix_lenient. Qed.
Print Assumptions C18_prefix_lenient.

(* /cla/{id} still counts as a prefix of /clas/{id}: one plural s is tolerated (F7) *)
Theorem C18_prefix_is_resource_prefix_refuted : exists lp lv rp rv,
  is_prefix lp lv rp rv = Some true /\ resource_prefix lp lv rp rv = false.
Proof. exists s_cla_id, [(s_id, s_one)], s_clas_id, [(s_id, s_one)]. exact prefix_refuted. Qed.
Print Assumptions C18_prefix_is_resource_prefix_refuted.

(* SENTINEL for the repaired finding F3: the rstrip rule (every trailing s stripped) takes /clas/{id} for a prefix of
   /class/{id}; the code as it is and the reference do not, and the pair is inside prefix_region *)
Theorem C18_prefix_rstrip_sentinel_refuted : exists lp lv rp rv,
  is_prefix_rstrip lp lv rp rv = Some true /\ is_prefix lp lv rp rv = Some false /\
  resource_prefix lp lv rp rv = false /\ prefix_region lp lv rp rv = true.
Proof. exists s_clas_id, [(s_id, s_one)], s_class_id, [(s_id, s_one)]. exact prefix_rstrip_sentinel_refuted. Qed.
Print Assumptions C18_prefix_rstrip_sentinel_refuted.

(* use_after_free reports exactly when the property text requires it (and then the text allows it), as long as
   every DELETE answered like its parent and the path heuristic is exact *)
Theorem C18_uaf_partial : forall h c st,
  wf h = true -> In c h -> is_last h c = true ->
  delete_agrees_with_parent h = true -> prefix_region_all h c = true -> (st <? 600) = true ->
  reported (use_after_free h c st) = uaf_required h c st /\
  (uaf_required h c st = true -> uaf_allowed h c st = true).
Proof. exact uaf_partial. Qed.
Print Assumptions C18_uaf_partial.

(* POST 201 -> DELETE 404 -> GET 200: accused although the delete failed *)
Theorem C18_uaf_unsound_refuted : exists h c st,
  wf h = true /\ In c h /\ is_last h c = true /\ prefix_region_all h c = true /\
  reported (use_after_free h c st) = true /\ uaf_allowed h c st = false.
Proof. exists h_unsound, c_unsound, 200. exact uaf_unsound_refuted. Qed.
Print Assumptions C18_uaf_unsound_refuted.

(* DELETE 204 (no parent) -> GET 200: missed *)
Theorem C18_uaf_incomplete_refuted : exists h c st,
  wf h = true /\ In c h /\ is_last h c = true /\ prefix_region_all h c = true /\
  reported (use_after_free h c st) = false /\ uaf_required h c st = true.
Proof. exists h_missed, c_missed, 200. exact uaf_incomplete_refuted. Qed.
Print Assumptions C18_uaf_incomplete_refuted.

(* POST /cla 201 -> DELETE /cla/1 204 -> GET /clas/1 200: accused through the plural tolerance alone (F7) *)
Theorem C18_uaf_prefix_refuted : exists h c st,
  wf h = true /\ In c h /\ is_last h c = true /\ delete_agrees_with_parent h = true /\
  reported (use_after_free h c st) = true /\ uaf_allowed h c st = false.
Proof. exists h_clas, c_clas, 200. exact uaf_refuted_prefix. Qed.
Print Assumptions C18_uaf_prefix_refuted.

(* ... while POST /cla 201 -> DELETE /clas/1 204 -> GET /class/1 200 (accused before e735a769) satisfies every region
   hypothesis and passes *)
Theorem C18_uaf_class_not_accused : exists h c,
  wf h = true /\ In c h /\ is_last h c = true /\ delete_agrees_with_parent h = true /\
  prefix_region_all h c = true /\ use_after_free h c 200 = Pass /\ uaf_allowed h c 200 = false.
Proof. exists h_class, c_class. exact uaf_class_not_accused. Qed.
Print Assumptions C18_uaf_class_not_accused.

(* the hypotheses of C18_uaf_partial hold for the canonical create - delete - get sequence, which is reported *)
Theorem C18_uaf_hypotheses_satisfiable : exists h c,
  wf h = true /\ In c h /\ is_last h c = true /\ delete_agrees_with_parent h = true /\
  prefix_region_all h c = true /\ use_after_free h c 200 = Reported 2 /\ uaf_required h c 200 = true.
Proof. exists h_canon, c_canon. exact uaf_nonvacuous. Qed.
Print Assumptions C18_uaf_hypotheses_satisfiable.

(* ensure_resource_availability reports only in the situation the property text allows *)
Theorem C18_avail_sound_partial : forall h c st,
  wf h = true -> In c h -> is_last h c = true ->
  prefix_region_all h c = true -> parent_not_3xx h c = true -> override_faithful c = true ->
  reported (ensure_resource_availability h c st) = true -> avail_allowed h c st = true.
Proof. exact avail_sound. Qed.
Print Assumptions C18_avail_sound_partial.

(* POST 302 -> GET 404: the POST window is 2xx-3xx *)
Theorem C18_avail_sound_refuted_3xx : exists h c st,
  wf h = true /\ In c h /\ is_last h c = true /\ prefix_region_all h c = true /\ override_faithful c = true /\
  reported (ensure_resource_availability h c st) = true /\ avail_allowed h c st = false.
Proof. exists h_avail_3xx, c_avail, 404. exact avail_refuted_3xx. Qed.
Print Assumptions C18_avail_sound_refuted_3xx.

(* a child with explicit (not generated) path parameters and no link at all: every parameter counts as overridden *)
Theorem C18_avail_sound_refuted_override : exists h c st,
  wf h = true /\ In c h /\ is_last h c = true /\ prefix_region_all h c = true /\ parent_not_3xx h c = true /\
  reported (ensure_resource_availability h c st) = true /\ avail_allowed h c st = false.
Proof. exists h_nolink, c_nolink, 404. exact avail_refuted_override. Qed.
Print Assumptions C18_avail_sound_refuted_override.

Theorem C18_avail_hypotheses_satisfiable : exists h c,
  wf h = true /\ In c h /\ is_last h c = true /\ prefix_region_all h c = true /\
  parent_not_3xx h c = true /\ override_faithful c = true /\
  ensure_resource_availability h c 404 = Reported 1 /\ avail_allowed h c 404 = true.
Proof. exists h_avail, c_avail. exact avail_nonvacuous. Qed.
Print Assumptions C18_avail_hypotheses_satisfiable.

(* "a request whose parameters all came from a link": every declared parameter, identified by its (location, name) pair -
   the same name may be declared in several locations -, was provided by a link *)
Theorem C18_avail_only_if_every_located_parameter_linked_partial : forall h c st,
  wf h = true -> In c h -> is_last h c = true ->
  prefix_region_all h c = true -> parent_not_3xx h c = true -> override_faithful c = true ->
  reported (ensure_resource_availability h c st) = true ->
  forall loc name, In (loc, name) (n_params c) -> In (loc, name) (n_linked c).
Proof. exact avail_only_if_located_linked. Qed.
Print Assumptions C18_avail_only_if_every_located_parameter_linked_partial.

(* no hypothesis on the history: a declared parameter whose OWN container reports no override of its name stops the report,
   whatever the containers of the other locations hold *)
Theorem C18_avail_needs_own_container : forall h c st p,
  In p (n_params c) -> param_overridden c p = false -> reported (ensure_resource_availability h c st) = false.
Proof. exact avail_needs_own_container. Qed.
Print Assumptions C18_avail_needs_own_container.

(* SENTINEL: the name-only rule (one flat set of overridden names) is not the code and breaks the property inside every
   region: POST /orgs 201 -> GET /orgs/{id}/members?id=.. 404, path id from the link, query id generated *)
Theorem C18_avail_name_only_sentinel_refuted : exists h c st,
  wf h = true /\ In c h /\ is_last h c = true /\ prefix_region_all h c = true /\ parent_not_3xx h c = true /\
  override_faithful c = true /\
  reported (ensure_resource_availability_by_name h c st) = true /\ avail_allowed h c st = false /\
  ensure_resource_availability h c st = Pass.
Proof. exists h_samename, c_samename, 404. exact avail_by_name_refuted. Qed.
Print Assumptions C18_avail_name_only_sentinel_refuted.

(* the same request with both ids from the link satisfies the hypotheses, is reported and allowed *)
Theorem C18_avail_same_name_hypotheses_satisfiable : exists h c,
  wf h = true /\ In c h /\ is_last h c = true /\ prefix_region_all h c = true /\
  parent_not_3xx h c = true /\ override_faithful c = true /\
  ensure_resource_availability h c 404 = Reported 1 /\ avail_allowed h c 404 = true.
Proof. exists h_samename_linked, c_samename_linked. exact avail_samename_nonvacuous. Qed.
Print Assumptions C18_avail_same_name_hypotheses_satisfiable.

(* neither check accuses a case when no recorded case is on the same resource *)
Theorem C18_unrelated_never_reported_partial : forall h c st,
  wf h = true -> In c h -> is_last h c = true ->
  delete_agrees_with_parent h = true -> prefix_region_all h c = true ->
  parent_not_3xx h c = true -> override_faithful c = true -> (st <? 600) = true ->
  (forall d, In d h -> n_id d <> n_id c -> same_resource d c = false) ->
  reported (use_after_free h c st) = false /\ reported (ensure_resource_availability h c st) = false.
Proof. exact unrelated_never_reported. Qed.
Print Assumptions C18_unrelated_never_reported_partial.

(* POST /orders 201 -> DELETE /users/1 204 -> GET /users/2: satisfies those hypotheses *)
Theorem C18_unrelated_hypotheses_satisfiable : exists h c,
  wf h = true /\ In c h /\ is_last h c = true /\ delete_agrees_with_parent h = true /\
  prefix_region_all h c = true /\ parent_not_3xx h c = true /\ override_faithful c = true /\
  forallb (fun d => N.eqb (n_id d) (n_id c) || negb (same_resource d c)) h = true.
Proof. exists h_other, c_other. exact unrelated_nonvacuous. Qed.
Print Assumptions C18_unrelated_hypotheses_satisfiable.
