(* C18 model: the scenario history recorder (engine/recorder.py: find_parent,
   find_related, find_response), the path heuristic _is_prefix_operation with
   ResourcePath.get, Case._override (generation/overrides.py), and the checks
   use_after_free / ensure_resource_availability (specs/openapi/checks.py),
   followed by the reference predicates written from the property text and the
   executable region predicates.  Executable definitions only. *)
From Coq Require Import List NArith Bool.
From Verif Require Import Common.Str.
Import ListNotations.
Open Scope N_scope.

(* ---------- data ---------- *)
Definition dict := list (str * str).   (* insertion-ordered python dict, values through str() *)

Fixpoint dget (d : dict) (k : str) : option str :=
  match d with
  | [] => None
  | (k', v) :: d' => if str_eqb k' k then Some v else dget d' k
  end.

(* one component of a Case as generation/overrides.py sees it:
   StoredValue(value, is_generated) taken in Case.__post_init__, and the current container *)
Record comp := {
  c_generated : bool;
  c_stored : option dict;
  c_current : option dict }.

Record node := {
  n_id : N;                        (* Case.id *)
  n_parent : option N;             (* CaseNode.parent_id *)
  n_method : str;                  (* operation.method *)
  n_path : str;                    (* Case.path: the path template *)
  n_pp : comp;                     (* path_parameters *)
  n_query : comp;                  (* query *)
  n_headers : comp;                (* headers *)
  n_cookies : comp;                (* cookies *)
  n_params : list (N * str);       (* operation.iter_parameters(): (location, name); 0 = path, 1 = header, 2 = cookie, 3 = query;
                                      the same name may be declared in several locations *)
  n_linked : list (N * str);       (* ground truth: the (location, name) pairs a link provided *)
  n_status : option N }.           (* status of the recorded response; None = no interaction / no response *)

Definition history := list node.   (* ScenarioRecorder.cases in insertion order, with interactions folded in *)

Definition pp_of (n : node) : dict := match c_current (n_pp n) with Some d => d | None => [] end.

(* ---------- recorder.py ---------- *)
Definition get (h : history) (i : N) : option node := find (fun n => N.eqb (n_id n) i) h.

Inductive fp_result := FPNone | FPSome (p : node) | FPAssert.

(* recorder.py:85 find_parent *)
Definition find_parent (h : history) (i : N) : fp_result :=
  match get h i with
  | None => FPNone
  | Some n =>
    match n_parent n with
    | None => FPNone
    | Some p => match get h p with Some m => FPSome m | None => FPAssert end
    end
  end.

(* recorder.py:125 find_response (the status is all the checks read) *)
Definition find_response (h : history) (i : N) : option N :=
  match get h i with Some n => n_status n | None => None end.

(* recorder.py:99-106: climb to the root; None = fuel exhausted (a parent cycle: the real loop spins) *)
Fixpoint climb (fuel : nat) (h : history) (i : N) : option N :=
  match fuel with
  | O => None
  | S f =>
    match get h i with
    | None => Some i
    | Some n => match n_parent n with None => Some i | Some p => climb f h p end
    end
  end.

Definition root_id (h : history) (i : N) : option N := climb (S (length h)) h i.

Definition is_child (nid : N) (n : node) : bool :=
  match n_parent n with Some p => N.eqb p nid | None => false end.

(* recorder.py:109-116: one pass of the for loop of traverse over the items of cases;
   rec is the recursive call; the seen set is threaded through *)
Fixpoint scan (rec : N -> list N -> option (list node * list N)) (nid : N) (l : list node) (seen : list N)
  : option (list node * list N) :=
  match l with
  | [] => Some ([], seen)
  | n :: l' =>
    if is_child nid n && negb (mem (n_id n) seen) then
      match rec (n_id n) (n_id n :: seen) with
      | None => None
      | Some (sub, seen1) =>
        match scan rec nid l' seen1 with
        | None => None
        | Some (rest, seen2) => Some (n :: sub ++ rest, seen2)
        end
      end
    else scan rec nid l' seen
  end.

Fixpoint traverse (fuel : nat) (h : history) (nid : N) (seen : list N) : option (list node * list N) :=
  match fuel with
  | O => None
  | S f => scan (traverse f h) nid h seen
  end.

(* recorder.py:95 find_related, as the list the generator yields *)
Definition find_related (h : history) (cid : N) : option (list node) :=
  match root_id h cid with
  | None => None
  | Some rid =>
    let seen0 := [cid] in
    let '(pre, seen1) :=
      match get h rid with
      | Some r => if mem rid seen0 then ([], seen0) else ([r], rid :: seen0)
      | None => ([], seen0)
      end in
    match traverse (S (length h)) h rid seen1 with
    | None => None
    | Some (out, _) => Some (pre ++ out)
    end
  end.

(* ---------- checks.py:637-667 ResourcePath, _is_prefix_operation ---------- *)
Definition SLASH : N := 47.
Definition LBRACE : N := 123.
Definition RBRACE : N := 125.
Definition LOWER_S : N := 115.

Definition rstrip_c (c : N) (s : str) : str := rev (strip_left [c] (rev s)).
Definition parts (p : str) : list str := split_on SLASH (rstrip_c SLASH p).
Definition starts_brace (s : str) : bool := match s with c :: _ => N.eqb c LBRACE | [] => false end.
(* key.lstrip({).rstrip(}) *)
Definition var_key (seg : str) : str := rstrip_c RBRACE (strip_left [LBRACE] seg).
(* ResourcePath.get: None = KeyError *)
Definition rp_get (vars : dict) (seg : str) : option str := dget vars (var_key seg).

(* str.removesuffix(s): at most one trailing s goes (checks.py:662 since e735a769) *)
Definition remove_suffix_s (s : str) : str :=
  match rev s with
  | c :: t => if N.eqb c LOWER_S then rev t else s
  | [] => s
  end.

(* the zip loop; None = KeyError.  norm is the normalisation applied to two unequal literal segments *)
Fixpoint zip_match_with (norm : str -> str) (lv rv : dict) (l r : list str) : option bool :=
  match l, r with
  | a :: l', b :: r' =>
    if starts_brace a && starts_brace b then
      match rp_get lv a with
      | None => None
      | Some x =>
        match rp_get rv b with
        | None => None
        | Some y => if str_eqb x y then zip_match_with norm lv rv l' r' else Some false
        end
      end
    else if negb (str_eqb a b) && negb (str_eqb (norm a) (norm b)) then Some false
    else zip_match_with norm lv rv l' r'
  | _, _ => Some true
  end.

Definition is_prefix_with (norm : str -> str) (lp : str) (lv : dict) (rp : str) (rv : dict) : option bool :=
  if Nat.ltb (length (parts rp)) (length (parts lp)) then Some false
  else zip_match_with norm lv rv (parts lp) (parts rp).

(* the code as it is *)
Definition zip_match := zip_match_with remove_suffix_s.
Definition is_prefix := is_prefix_with remove_suffix_s.

(* SENTINEL, not the code: the rule before e735a769 (left.rstrip(s) != right.rstrip(s), every trailing s stripped).
   Kept so that a regression to it is recognised by name: finding C18-F3 (fixed). *)
Definition is_prefix_rstrip := is_prefix_with (rstrip_c LOWER_S).

Definition is_prefix_n (a b : node) : option bool := is_prefix (n_path a) (pp_of a) (n_path b) (pp_of b).

(* ---------- generation/overrides.py:63-71 + core/transforms.py:34 ---------- *)
Fixpoint dhas (d : dict) (k : str) : bool :=
  match d with [] => false | (k', _) :: d' => str_eqb k' k || dhas d' k end.

(* keys of diff(left, right) *)
Definition diff_keys (left right : dict) : list str :=
  map fst (filter (fun kv => match dget left (fst kv) with
                             | None => true
                             | Some v => negb (str_eqb v (snd kv))
                             end) right).

Definition is_nil {A} (l : list A) : bool := match l with [] => true | _ => false end.

(* keys of get_component_diff(stored, current) *)
Definition override_names (c : comp) : list str :=
  match c_current c, c_stored c with
  | Some cur, Some st =>
    if is_nil cur || is_nil st then []
    else if c_generated c then diff_keys st cur else map fst cur
  | _, _ => []
  end.

Definition str_mem (k : str) (l : list str) : bool := existsb (str_eqb k) l.

(* checks.py:418-424: every parameter is looked up in the override container of ITS OWN location
   (LOCATION_TO_CONTAINER[parameter.location]); a location other than the four (body) is never overridden *)
Definition container_of (n : node) (loc : N) : option comp :=
  if N.eqb loc 0 then Some (n_pp n)
  else if N.eqb loc 1 then Some (n_headers n)
  else if N.eqb loc 2 then Some (n_cookies n)
  else if N.eqb loc 3 then Some (n_query n)
  else None.
Definition param_overridden (n : node) (p : N * str) : bool :=
  match container_of n (fst p) with
  | Some c => str_mem (snd p) (override_names c)
  | None => false
  end.
Definition overrides_all (n : node) : bool := forallb (param_overridden n) (n_params n).

(* SENTINEL, not the code: the name-only rule - one flat set of the overridden NAMES of all four containers, the
   location of the parameter is forgotten, so a name a link supplied in one location vouches for a generated
   parameter of the same name in another one.  Kept so that a regression to it is recognised by name. *)
Definition all_override_names (n : node) : list str :=
  override_names (n_pp n) ++ override_names (n_query n) ++ override_names (n_headers n) ++ override_names (n_cookies n).
Definition param_overridden_by_name (n : node) (p : N * str) : bool := str_mem (snd p) (all_override_names n).
Definition overrides_all_by_name (n : node) : bool := forallb (param_overridden_by_name n) (n_params n).

(* ---------- the checks ---------- *)
Inductive exn := AssertionError | KeyError | Diverges.
Inductive verdict := Pass | Reported (blamed : N) | Raises (e : exn).

Definition in_2xx (o : option N) : bool :=
  match o with Some s => (200 <=? s) && (s <? 300) | None => false end.
Definition in_2xx_3xx (o : option N) : bool :=
  match o with Some s => (200 <=? s) && (s <? 400) | None => false end.

Definition M_DELETE : str := [68; 69; 76; 69; 84; 69].
Definition M_delete : str := [100; 101; 108; 101; 116; 101].
Definition M_POST : str := [80; 79; 83; 84].

(* checks.py:357-384: the loop over find_related *)
Fixpoint uaf_loop (h : history) (c : node) (rel : list node) : verdict :=
  match rel with
  | [] => Pass
  | r :: rel' =>
    match find_parent h (n_id r) with
    | FPAssert => Raises AssertionError
    | FPNone => uaf_loop h c rel'
    | FPSome p =>
      if str_eqb (lower_ascii (n_method r)) M_delete && in_2xx (find_response h (n_id p)) then
        match is_prefix_n r c with
        | None => Raises KeyError
        | Some true => Reported (n_id r)
        | Some false => uaf_loop h c rel'
        end
      else uaf_loop h c rel'
    end
  end.

(* checks.py:349 use_after_free(ctx, response, case); st = response.status_code *)
Definition use_after_free (h : history) (c : node) (st : N) : verdict :=
  if N.eqb st 404 || (500 <=? st) then Pass
  else match find_related h (n_id c) with
       | None => Raises Diverges
       | Some rel => uaf_loop h c rel
       end.

(* checks.py:429-441 *)
Fixpoint avail_loop (h : history) (c : node) (blame : N) (rel : list node) : verdict :=
  match rel with
  | [] => Reported blame
  | r :: rel' =>
    if str_eqb (upper_ascii (n_method r)) M_DELETE && in_2xx (find_response h (n_id r)) then
      match is_prefix_n r c with
      | None => Raises KeyError
      | Some true => Pass
      | Some false => avail_loop h c blame rel'
      end
    else avail_loop h c blame rel'
  end.

(* checks.py:390 ensure_resource_availability *)
Definition ensure_resource_availability (h : history) (c : node) (st : N) : verdict :=
  if negb ((400 <=? st) && (st <? 500)) then Pass
  else match find_parent h (n_id c) with
       | FPAssert => Raises AssertionError
       | FPNone => Pass
       | FPSome p =>
         match find_response h (n_id p) with
         | None => Pass
         | Some ps =>
           if str_eqb (upper_ascii (n_method p)) M_POST && in_2xx_3xx (Some ps) then
             match is_prefix_n p c with
             | None => Raises KeyError
             | Some false => Pass
             | Some true =>
               if overrides_all c then
                 match find_related h (n_id c) with
                 | None => Raises Diverges
                 | Some rel => avail_loop h c (n_id p) rel
                 end
               else Pass
             end
           else Pass
         end
       end.

(* the same check with the 'all parameters come from links' test as a parameter *)
Definition ensure_resource_availability_with (ov : node -> bool) (h : history) (c : node) (st : N) : verdict :=
  if negb ((400 <=? st) && (st <? 500)) then Pass
  else match find_parent h (n_id c) with
       | FPAssert => Raises AssertionError
       | FPNone => Pass
       | FPSome p =>
         match find_response h (n_id p) with
         | None => Pass
         | Some ps =>
           if str_eqb (upper_ascii (n_method p)) M_POST && in_2xx_3xx (Some ps) then
             match is_prefix_n p c with
             | None => Raises KeyError
             | Some false => Pass
             | Some true =>
               if ov c then
                 match find_related h (n_id c) with
                 | None => Raises Diverges
                 | Some rel => avail_loop h c (n_id p) rel
                 end
               else Pass
             end
           else Pass
         end
       end.
(* SENTINEL, not the code: the check with the name-only rule *)
Definition ensure_resource_availability_by_name := ensure_resource_availability_with overrides_all_by_name.

Definition reported (v : verdict) : bool := match v with Reported _ => true | _ => false end.

(* ================= reference predicates, from the property text ================= *)

(* same resource: the segments of the left path are a prefix of the segments of the right path,
   literal segments equal, identifier segments both identifiers with equal values *)
Definition seg_same (lv rv : dict) (a b : str) : bool :=
  if starts_brace a && starts_brace b then
    match rp_get lv a, rp_get rv b with
    | Some x, Some y => str_eqb x y
    | _, _ => false
    end
  else str_eqb a b.

Fixpoint ref_match (lv rv : dict) (l r : list str) : bool :=
  match l, r with
  | [], _ => true
  | _ :: _, [] => false
  | a :: l', b :: r' => seg_same lv rv a b && ref_match lv rv l' r'
  end.

Definition resource_prefix (lp : str) (lv : dict) (rp : str) (rv : dict) : bool :=
  ref_match lv rv (parts lp) (parts rp).
Definition same_resource (d c : node) : bool := resource_prefix (n_path d) (pp_of d) (n_path c) (pp_of c).

Definition succeeded (n : node) : bool := in_2xx (n_status n).
Definition has_method (m : str) (n : node) : bool := str_eqb (upper_ascii (n_method n)) m.

Definition opt_N_eqb (a b : option N) : bool :=
  match a, b with Some x, Some y => N.eqb x y | _, _ => false end.
(* same scenario tree: same root after following the parent links *)
Definition same_tree (h : history) (a b : node) : bool := opt_N_eqb (root_id h (n_id a)) (root_id h (n_id b)).

(* the nodes recorded before c *)
Fixpoint earlier (h : history) (c : node) : list node :=
  match h with
  | [] => []
  | n :: h' => if N.eqb (n_id n) (n_id c) then [] else n :: earlier h' c
  end.
(* the nodes recorded after p *)
Fixpoint later (h : history) (p : node) : list node :=
  match h with
  | [] => []
  | n :: h' => if N.eqb (n_id n) (n_id p) then h' else later h' p
  end.

Definition freed_before (h : history) (c : node) (l : list node) : bool :=
  existsb (fun d => same_tree h d c && has_method M_DELETE d && succeeded d && same_resource d c) l.

(* only if: an earlier successful DELETE on the same resource in the same tree, and not a 404 *)
Definition uaf_allowed (h : history) (c : node) (st : N) : bool :=
  negb (N.eqb st 404) && freed_before h c (earlier h c).
(* whenever: the same, for a non-5xx response *)
Definition uaf_required (h : history) (c : node) (st : N) : bool :=
  uaf_allowed h c st && negb ((500 <=? st) && (st <? 600)).

(* the declared parameter (location, name) was provided by a link: the location counts, not only the name *)
Definition linked_at (c : node) (p : N * str) : bool :=
  existsb (fun q => N.eqb (fst p) (fst q) && str_eqb (snd p) (snd q)) (n_linked c).
Definition all_linked (c : node) : bool :=
  forallb (fun p => existsb (fun q => N.eqb (fst p) (fst q) && str_eqb (snd p) (snd q)) (n_linked c)) (n_params c).

(* only for: a 4xx answer, every parameter from a link out of a successful POST on a prefix of the path,
   no successful DELETE of the resource in between *)
Definition avail_allowed (h : history) (c : node) (st : N) : bool :=
  (400 <=? st) && (st <? 500) &&
  match n_parent c with
  | None => false
  | Some pid =>
    match get h pid with
    | None => false
    | Some p =>
      has_method M_POST p && succeeded p && same_resource p c && all_linked c &&
      negb (freed_before h c (later (earlier h c) p))
    end
  end.

(* ================= regions (executable) ================= *)

Fixpoint idx (h : history) (i : N) : nat :=
  match h with
  | [] => O
  | n :: h' => if N.eqb (n_id n) i then O else S (idx h' i)
  end.

Fixpoint nodup_ids (h : history) : bool :=
  match h with
  | [] => true
  | n :: h' => negb (existsb (fun m => N.eqb (n_id m) (n_id n)) h') && nodup_ids h'
  end.

(* what a recorder holds in practice: distinct ids, a parent is recorded before its children *)
Definition wf (h : history) : bool :=
  nodup_ids h &&
  forallb (fun n => match n_parent n with
                    | None => true
                    | Some p => Nat.ltb (idx h p) (idx h (n_id n))
                    end) h.

(* the check runs for the case recorded last *)
Definition is_last (h : history) (c : node) : bool :=
  match rev h with n :: _ => N.eqb (n_id n) (n_id c) | [] => false end.

Definition is_root (c : node) : bool := match n_parent c with None => true | Some _ => false end.
Definition is_leaf (h : history) (c : node) : bool := negb (existsb (is_child (n_id c)) h).

(* F1/F2: use_after_free reads the response of the parent of the DELETE, not of the DELETE *)
Definition parent_2xx (h : history) (d : node) : bool :=
  match n_parent d with
  | None => false
  | Some p => in_2xx (find_response h p)
  end.
Definition delete_agrees_with_parent (h : history) : bool :=
  forallb (fun d => negb (has_method M_DELETE d) || Bool.eqb (parent_2xx h d) (succeeded d)) h.

(* F7: no two segments that differ only in one trailing s, identifiers resolve *)
Fixpoint seg_region (lv rv : dict) (l r : list str) : bool :=
  match l, r with
  | a :: l', b :: r' =>
    (if starts_brace a && starts_brace b then
       match rp_get lv a, rp_get rv b with Some _, Some _ => true | _, _ => false end
     else str_eqb a b || negb (str_eqb (remove_suffix_s a) (remove_suffix_s b)))
    && seg_region lv rv l' r'
  | _, _ => true
  end.
Definition prefix_region (lp : str) (lv : dict) (rp : str) (rv : dict) : bool :=
  seg_region lv rv (parts lp) (parts rp).
Definition prefix_region_n (d c : node) : bool := prefix_region (n_path d) (pp_of d) (n_path c) (pp_of c).
Definition prefix_region_all (h : history) (c : node) : bool := forallb (fun d => prefix_region_n d c) h.

(* F5: the POST window is 2xx-3xx, the DELETE window 2xx *)
Definition parent_not_3xx (h : history) (c : node) : bool :=
  match n_parent c with
  | None => true
  | Some p => match find_response h p with Some s => negb ((300 <=? s) && (s <? 400)) | None => true end
  end.

(* F6: what Case._override reports is what a link provided *)
Definition override_faithful (c : node) : bool :=
  forallb (fun p => negb (param_overridden c p)
                    || existsb (fun q => N.eqb (fst p) (fst q) && str_eqb (snd p) (snd q)) (n_linked c)) (n_params c).
