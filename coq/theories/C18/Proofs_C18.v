(* C18 proofs: witnesses of the refuted statements, then the lemmas behind the
   partial theorems. *)
From Coq Require Import List NArith Bool Lia Arith.
From Verif Require Import Common.Str C18.Model_C18.
Import ListNotations.
Open Scope N_scope.

(* ---------- witnesses ---------- *)
Definition s_users : str := [47; 117; 115; 101; 114; 115].                       (* /users *)
Definition s_users_id : str := s_users ++ [47; 123; 105; 100; 125].              (* /users/{id} *)
Definition s_id : str := [105; 100].
Definition s_one : str := [49].
Definition m_get : str := [103; 101; 116].
Definition m_post : str := [112; 111; 115; 116].
Definition m_delete : str := [100; 101; 108; 101; 116; 101].
Definition no_comp : comp := {| c_generated := false; c_stored := None; c_current := None |}.
Definition explicit (d : dict) : comp := {| c_generated := false; c_stored := Some d; c_current := Some d |}.

Definition mkn (i : N) (parent : option N) (m : str) (path : str) (pp : comp) (params linked : list (N * str)) (st : option N) : node :=
  {| n_id := i; n_parent := parent; n_method := m; n_path := path; n_pp := pp; n_query := no_comp; n_headers := no_comp; n_cookies := no_comp;
     n_params := params; n_linked := linked; n_status := st |}.

Definition id1 : comp := explicit [(s_id, s_one)].
Definition p_id : list (N * str) := [(0, s_id)].

Definition post_users (i : N) (parent : option N) (st : N) := mkn i parent m_post s_users no_comp [] [] (Some st).
Definition delete_user1 (i : N) (parent : option N) (st : N) := mkn i parent m_delete s_users_id id1 p_id p_id (Some st).
Definition get_user1 (i : N) (parent : option N) (st : N) := mkn i parent m_get s_users_id id1 p_id p_id (Some st).

(* F1: POST 201 -> DELETE 404 -> GET 200 *)
Definition c_unsound := get_user1 3 (Some 2) 200.
Definition h_unsound : history := [post_users 1 None 201; delete_user1 2 (Some 1) 404; c_unsound].
(* F2: DELETE 204 (root) -> GET 200 *)
Definition c_missed := get_user1 2 (Some 1) 200.
Definition h_missed : history := [delete_user1 1 None 204; c_missed].
(* the canonical sequence: POST 201 -> DELETE 204 -> GET 200 *)
Definition c_canon := get_user1 3 (Some 2) 200.
Definition h_canon : history := [post_users 1 None 201; delete_user1 2 (Some 1) 204; c_canon].

(* ---------- lookups ---------- *)
Lemma get_some h i n : get h i = Some n -> In n h /\ n_id n = i.
Proof.
  unfold get; intros H; apply find_some in H; destruct H as [H1 H2].
  apply N.eqb_eq in H2; auto.
Qed.

Lemma get_none h i : get h i = None -> forall n, In n h -> n_id n <> i.
Proof.
  unfold get; intros H n Hn E. apply (find_none _ _ H) in Hn. apply N.eqb_neq in Hn. contradiction.
Qed.

Lemma nodup_get h n : nodup_ids h = true -> In n h -> get h (n_id n) = Some n.
Proof.
  induction h as [|m h IH]; intros Hd Hin; [destruct Hin|].
  cbn [nodup_ids] in Hd. apply andb_true_iff in Hd. destruct Hd as [Hm Hd].
  unfold get. cbn [find]. destruct Hin as [->|Hin].
  - rewrite N.eqb_refl. reflexivity.
  - destruct (N.eqb (n_id m) (n_id n)) eqn:E.
    + apply N.eqb_eq in E. apply negb_true_iff in Hm.
      assert (existsb (fun x => N.eqb (n_id x) (n_id m)) h = true) as Hc.
      { apply existsb_exists. exists n. split; [exact Hin|]. rewrite E. apply N.eqb_refl. }
      rewrite Hc in Hm. discriminate.
    + apply IH; assumption.
Qed.

Lemma nodup_inj h a b : nodup_ids h = true -> In a h -> In b h -> n_id a = n_id b -> a = b.
Proof.
  intros Hd Ha Hb E. pose proof (nodup_get h a Hd Ha) as Ga. pose proof (nodup_get h b Hd Hb) as Gb.
  rewrite E in Ga. rewrite Ga in Gb. inversion Gb. reflexivity.
Qed.

Lemma is_child_spec nid n : is_child nid n = true <-> n_parent n = Some nid.
Proof.
  unfold is_child. destruct (n_parent n) as [p|]; [|split; discriminate].
  rewrite N.eqb_eq. split; [intros ->; reflexivity | intros H; inversion H; reflexivity].
Qed.

(* ---------- the traversal ---------- *)
(* n is a proper descendant of nid through a chain of nodes none of which is in seen *)
Inductive under (h : history) (seen : list N) (nid : N) : node -> Prop :=
| under_child n : In n h -> n_parent n = Some nid -> ~ In (n_id n) seen -> under h seen nid n
| under_step n m : In n h -> n_parent n = Some (n_id m) -> ~ In (n_id n) seen ->
    under h seen nid m -> under h seen nid n.

Lemma under_in h seen nid n : under h seen nid n -> In n h.
Proof. destruct 1; assumption. Qed.
Lemma under_unseen h seen nid n : under h seen nid n -> ~ In (n_id n) seen.
Proof. destruct 1; assumption. Qed.

Lemma under_weaken h s s' nid n : (forall i, In i s -> In i s') -> under h s' nid n -> under h s nid n.
Proof.
  intros Hs H. induction H as [n Hn Hp Hu | n m Hn Hp Hu Hm IH].
  - apply under_child; auto.
  - apply under_step with m; auto.
Qed.

Lemma under_lift h s nid x a :
  In x h -> n_parent x = Some nid -> ~ In (n_id x) s ->
  under h (n_id x :: s) (n_id x) a -> under h s nid a.
Proof.
  intros Hx Hp Hu H. induction H as [n Hn Hpn Hun | n m Hn Hpn Hun Hm IH].
  - apply under_step with x; [assumption|assumption| |apply under_child; assumption].
    intros Hc. apply Hun. right. exact Hc.
  - apply under_step with m; [assumption|assumption| |exact IH].
    intros Hc. apply Hun. right. exact Hc.
Qed.

Definition ids (l : list node) : list N := map n_id l.

Record tspec (h : history) (nid : N) (seen : list N) (out : list node) (seen' : list N) : Prop := {
  t_seen : seen' = rev (ids out) ++ seen;
  t_under : forall n, In n out -> under h seen nid n;
  t_nodup : NoDup (ids out);
  t_closed : forall m p, In m h -> n_parent m = Some p -> (p = nid \/ In p (ids out)) -> In (n_id m) seen' }.

Definition rec_ok (h : history) (rec : N -> list N -> option (list node * list N)) : Prop :=
  forall nid seen out seen', rec nid seen = Some (out, seen') -> tspec h nid seen out seen'.

Lemma mem_false_notin c l : mem c l = false -> ~ In c l.
Proof. intros H Hc. apply mem_spec in Hc. rewrite Hc in H. discriminate. Qed.

Lemma NoDup_app_intro {A} (l1 l2 : list A) :
  NoDup l1 -> NoDup l2 -> (forall x, In x l1 -> In x l2 -> False) -> NoDup (l1 ++ l2).
Proof.
  induction l1 as [|a l1 IH]; intros H1 H2 Hd; [exact H2|].
  inversion H1; subst. cbn [app]. constructor.
  - intros Hc. apply in_app_or in Hc. destruct Hc as [Hc|Hc]; [contradiction|].
    apply (Hd a); [left; reflexivity|exact Hc].
  - apply IH; auto. intros x Hx1 Hx2. apply (Hd x); [right; exact Hx1|exact Hx2].
Qed.

Lemma scan_spec h rec : rec_ok h rec ->
  forall nid l seen out seen', incl l h -> scan rec nid l seen = Some (out, seen') ->
    seen' = rev (ids out) ++ seen /\
    (forall n, In n out -> under h seen nid n) /\
    NoDup (ids out) /\
    (forall m, In m l -> n_parent m = Some nid -> In (n_id m) seen') /\
    (forall m p, In m h -> n_parent m = Some p -> In p (ids out) -> In (n_id m) seen').
Proof.
  intros Hrec nid l. induction l as [|n l IH]; intros seen out seen' Hl H.
  - cbn [scan] in H. inversion H; subst. cbn. repeat split; try (intros; contradiction). constructor.
  - cbn [scan] in H.
    assert (incl l h) as Hl' by (intros x Hx; apply Hl; right; exact Hx).
    assert (In n h) as Hnh by (apply Hl; left; reflexivity).
    destruct (is_child nid n && negb (mem (n_id n) seen)) eqn:Ec.
    + apply andb_true_iff in Ec. destruct Ec as [Ech Ems].
      apply is_child_spec in Ech. apply negb_true_iff in Ems. apply mem_false_notin in Ems.
      destruct (rec (n_id n) (n_id n :: seen)) as [[sub seen1]|] eqn:Er; [|discriminate].
      destruct (scan rec nid l seen1) as [[rest seen2]|] eqn:Es; [|discriminate].
      inversion H; subst out seen'. clear H.
      apply Hrec in Er. destruct Er as [R1 R2 R3 R4].
      destruct (IH _ _ _ Hl' Es) as (S1 & S2 & S3 & S4 & S5).
      assert (forall i, In i seen -> In i seen1) as Hmono1.
      { intros i Hi. rewrite R1. apply in_or_app. right. right. exact Hi. }
      assert (forall i, In i seen1 -> In i seen2) as Hmono2.
      { intros i Hi. rewrite S1. apply in_or_app. right. exact Hi. }
      assert (In (n_id n) seen1) as Hn1.
      { rewrite R1. apply in_or_app. right. left. reflexivity. }
      split; [|split; [|split; [|split]]].
      * rewrite S1, R1. unfold ids. cbn [map rev]. rewrite map_app, rev_app_distr.
        rewrite <- !app_assoc. cbn [app]. reflexivity.
      * intros x [<-|Hx]; [apply under_child; assumption|].
        apply in_app_or in Hx. destruct Hx as [Hx|Hx].
        -- apply under_lift with n; auto.
        -- apply under_weaken with seen1; auto.
      * unfold ids. cbn [map]. rewrite map_app. constructor.
        -- intros Hc. apply in_app_or in Hc. destruct Hc as [Hc|Hc].
           ++ apply in_map_iff in Hc. destruct Hc as (x & Ex & Hx).
              apply R2 in Hx. apply under_unseen in Hx. apply Hx. left. symmetry. exact Ex.
           ++ apply in_map_iff in Hc. destruct Hc as (x & Ex & Hx).
              apply S2 in Hx. apply under_unseen in Hx. apply Hx. rewrite Ex. exact Hn1.
        -- apply NoDup_app_intro; [exact R3|exact S3|].
           intros i Hi1 Hi2. apply in_map_iff in Hi2. destruct Hi2 as (x & Ex & Hx).
           apply S2 in Hx. apply under_unseen in Hx. apply Hx. rewrite Ex, R1.
           apply in_or_app. left. apply in_rev in Hi1. exact Hi1.
      * intros m [<-|Hm] Hp; [apply Hmono2; exact Hn1 | apply S4; assumption].
      * intros m p Hm Hp Hin. unfold ids in Hin. cbn [map] in Hin. rewrite map_app in Hin.
        destruct Hin as [<-|Hin].
        -- apply Hmono2. apply (R4 m (n_id n)); auto.
        -- apply in_app_or in Hin. destruct Hin as [Hin|Hin].
           ++ apply Hmono2. apply (R4 m p); auto.
           ++ apply (S5 m p); auto.
    + destruct (IH _ _ _ Hl' H) as (S1 & S2 & S3 & S4 & S5).
      split; [exact S1|]. split; [exact S2|]. split; [exact S3|]. split; [|exact S5].
      intros m [<-|Hm] Hp; [|apply S4; assumption].
      apply andb_false_iff in Ec. destruct Ec as [Ec|Ec].
      * apply is_child_spec in Hp. rewrite Hp in Ec. discriminate.
      * apply negb_false_iff in Ec. apply mem_spec in Ec. rewrite S1. apply in_or_app. right. exact Ec.
Qed.

Lemma traverse_ok h : forall f, rec_ok h (traverse f h).
Proof.
  induction f as [|f IH]; intros nid seen out seen' H; [discriminate|].
  cbn [traverse] in H.
  destruct (scan_spec h _ IH nid h seen out seen' (incl_refl h) H) as (S1 & S2 & S3 & S4 & S5).
  constructor; auto.
  intros m p Hm Hp [->|Hin]; [apply S4; assumption | apply (S5 m p); assumption].
Qed.

Lemma tspec_complete h nid seen out seen' :
  tspec h nid seen out seen' -> forall n, under h seen nid n -> In (n_id n) (ids out).
Proof.
  intros [T1 T2 T3 T4] n H. induction H as [n Hn Hp Hu | n m Hn Hp Hu Hm IH].
  - assert (In (n_id n) seen') as Hs by (apply (T4 n nid); auto).
    rewrite T1 in Hs. apply in_app_or in Hs. destruct Hs as [Hs|Hs]; [|contradiction].
    apply in_rev in Hs. exact Hs.
  - assert (In (n_id n) seen') as Hs by (apply (T4 n (n_id m)); auto).
    rewrite T1 in Hs. apply in_app_or in Hs. destruct Hs as [Hs|Hs]; [|contradiction].
    apply in_rev in Hs. exact Hs.
Qed.

Lemma tspec_iff h nid seen out seen' : nodup_ids h = true ->
  tspec h nid seen out seen' -> forall n, In n out <-> under h seen nid n.
Proof.
  intros Hd T n. split; [apply (t_under _ _ _ _ _ T)|].
  intros Hu. pose proof (tspec_complete _ _ _ _ _ T n Hu) as Hi.
  apply in_map_iff in Hi. destruct Hi as (x & Ex & Hx).
  assert (x = n) as ->; [|exact Hx].
  apply (nodup_inj h); auto.
  - apply under_in with seen nid. apply (t_under _ _ _ _ _ T). exact Hx.
  - apply under_in with seen nid. exact Hu.
Qed.

(* fuel: the number of nodes not yet seen bounds the recursion depth *)
Definition unseen (h : history) (seen : list N) : nat :=
  length (filter (fun n => negb (mem (n_id n) seen)) h).

Lemma filter_len_le {A} (f g : A -> bool) l :
  (forall x, In x l -> f x = true -> g x = true) -> (length (filter f l) <= length (filter g l))%nat.
Proof.
  induction l as [|a l IH]; intros H; [apply Nat.le_refl|].
  cbn [filter].
  assert (length (filter f l) <= length (filter g l))%nat as IH'.
  { apply IH. intros x Hx. apply H. right. exact Hx. }
  destruct (f a) eqn:Ef.
  - rewrite (H a (or_introl eq_refl) Ef). cbn [length]. lia.
  - destruct (g a); cbn [length]; lia.
Qed.

Lemma filter_len_lt {A} (f g : A -> bool) l a :
  (forall x, In x l -> f x = true -> g x = true) -> In a l -> f a = false -> g a = true ->
  (length (filter f l) < length (filter g l))%nat.
Proof.
  induction l as [|b l IH]; intros H Ha Hf Hg; [destruct Ha|].
  cbn [filter].
  assert (forall x, In x l -> f x = true -> g x = true) as H' by (intros x Hx; apply H; right; exact Hx).
  destruct Ha as [->|Ha].
  - rewrite Hf, Hg. cbn [length]. pose proof (filter_len_le f g l H'). lia.
  - specialize (IH H' Ha Hf Hg). destruct (f b) eqn:Ef.
    + rewrite (H b (or_introl eq_refl) Ef). cbn [length]. lia.
    + destruct (g b); cbn [length]; lia.
Qed.

Lemma unseen_mono h s s' : (forall i, In i s -> In i s') -> (unseen h s' <= unseen h s)%nat.
Proof.
  intros Hs. apply filter_len_le. intros x _ Hx. apply negb_true_iff in Hx. apply negb_true_iff.
  destruct (mem (n_id x) s) eqn:E; [|reflexivity].
  apply mem_spec in E. apply Hs in E. apply mem_spec in E. rewrite E in Hx. discriminate.
Qed.

Lemma unseen_strict h s n : In n h -> ~ In (n_id n) s -> (unseen h (n_id n :: s) < unseen h s)%nat.
Proof.
  intros Hn Hu. apply filter_len_lt with n; auto.
  - intros x _ Hx. apply negb_true_iff in Hx. apply negb_true_iff.
    destruct (mem (n_id x) s) eqn:E; [|reflexivity].
    apply mem_spec in E. assert (In (n_id x) (n_id n :: s)) as E' by (right; exact E).
    apply mem_spec in E'. rewrite E' in Hx. discriminate.
  - apply negb_false_iff. apply mem_spec. left. reflexivity.
  - apply negb_true_iff. destruct (mem (n_id n) s) eqn:E; [|reflexivity].
    apply mem_spec in E. contradiction.
Qed.

Lemma scan_total h rec f : rec_ok h rec ->
  (forall x s, (unseen h s < f)%nat -> rec x s <> None) ->
  forall nid l seen, incl l h -> (unseen h seen <= f)%nat -> scan rec nid l seen <> None.
Proof.
  intros Hok Hrec nid l. induction l as [|n l IH]; intros seen Hl Hf; [discriminate|].
  cbn [scan].
  assert (incl l h) as Hl' by (intros x Hx; apply Hl; right; exact Hx).
  assert (In n h) as Hnh by (apply Hl; left; reflexivity).
  destruct (is_child nid n && negb (mem (n_id n) seen)) eqn:Ec; [|apply IH; assumption].
  apply andb_true_iff in Ec. destruct Ec as [_ Ems].
  apply negb_true_iff in Ems. apply mem_false_notin in Ems.
  pose proof (unseen_strict h seen n Hnh Ems) as Hlt.
  destruct (rec (n_id n) (n_id n :: seen)) as [[sub seen1]|] eqn:Er.
  - apply Hok in Er. destruct Er as [R1 _ _ _].
    assert (unseen h seen1 <= f)%nat as Hf1.
    { eapply Nat.le_trans; [|exact Hf]. apply unseen_mono. intros i Hi. rewrite R1.
      apply in_or_app. right. right. exact Hi. }
    specialize (IH seen1 Hl' Hf1).
    destruct (scan rec nid l seen1) as [[rest seen2]|]; [discriminate|contradiction].
  - exfalso. apply (Hrec (n_id n) (n_id n :: seen)); [lia|exact Er].
Qed.

Lemma traverse_total h : forall f nid seen, (unseen h seen < f)%nat -> traverse f h nid seen <> None.
Proof.
  induction f as [|f IH]; intros nid seen Hf; [lia|].
  cbn [traverse]. apply (scan_total h (traverse f h) f (traverse_ok h f)); auto.
  - apply incl_refl.
  - lia.
Qed.

Lemma unseen_le_length h s : (unseen h s <= length h)%nat.
Proof.
  unfold unseen. induction h as [|a h IH]; [apply Nat.le_refl|].
  cbn [filter]. destruct (negb (mem (n_id a) s)); cbn [length]; lia.
Qed.

Lemma traverse_full h nid seen : exists out seen', traverse (S (length h)) h nid seen = Some (out, seen').
Proof.
  destruct (traverse (S (length h)) h nid seen) as [[out seen']|] eqn:E; [eauto|].
  exfalso. apply (traverse_total h (S (length h)) nid seen); [|exact E].
  pose proof (unseen_le_length h seen). lia.
Qed.

(* ---------- well-formed histories: the root climb ---------- *)
Lemma idx_le h i : (idx h i <= length h)%nat.
Proof. induction h as [|n h IH]; cbn [idx length]; [lia|]. destruct (N.eqb (n_id n) i); lia. Qed.

Lemma idx_in h n : In n h -> (idx h (n_id n) < length h)%nat.
Proof.
  induction h as [|m h IH]; intros Hn; [destruct Hn|].
  cbn [idx length]. destruct (N.eqb (n_id m) (n_id n)) eqn:E; [lia|].
  destruct Hn as [->|Hn]; [rewrite N.eqb_refl in E; discriminate|]. specialize (IH Hn). lia.
Qed.

Lemma idx_lt_in h i : (idx h i < length h)%nat -> exists m, In m h /\ n_id m = i.
Proof.
  induction h as [|n h IH]; cbn [idx length]; intros H; [lia|].
  destruct (N.eqb (n_id n) i) eqn:E.
  - apply N.eqb_eq in E. exists n. split; [left; reflexivity|exact E].
  - destruct IH as (m & Hm & Em); [lia|]. exists m. split; [right; exact Hm|exact Em].
Qed.

Lemma wf_nodup h : wf h = true -> nodup_ids h = true.
Proof. unfold wf. intros H. apply andb_true_iff in H. apply H. Qed.

Lemma wf_parent h n p : wf h = true -> In n h -> n_parent n = Some p -> (idx h p < idx h (n_id n))%nat.
Proof.
  unfold wf. intros H Hn Hp. apply andb_true_iff in H. destruct H as [_ H].
  rewrite forallb_forall in H. specialize (H n Hn). rewrite Hp in H. apply Nat.ltb_lt in H. exact H.
Qed.

Lemma wf_parent_in h n p : wf h = true -> In n h -> n_parent n = Some p -> exists m, In m h /\ n_id m = p.
Proof.
  intros Hw Hn Hp. apply idx_lt_in. pose proof (wf_parent h n p Hw Hn Hp). pose proof (idx_in h n Hn). lia.
Qed.

(* a is a proper ancestor of n *)
Inductive desc (h : history) (a : N) : node -> Prop :=
| desc_child n : In n h -> n_parent n = Some a -> desc h a n
| desc_step n m : In n h -> In m h -> n_parent n = Some (n_id m) -> desc h a m -> desc h a n.

Definition root_node (h : history) (r : N) : Prop := exists m, In m h /\ n_id m = r /\ n_parent m = None.

Lemma under_desc h s nid n : under h s nid n -> desc h nid n.
Proof.
  induction 1 as [n Hn Hp Hu | n m Hn Hp Hu Hm IH].
  - apply desc_child; assumption.
  - apply desc_step with m; auto. apply under_in in Hm. exact Hm.
Qed.

Lemma desc_has_parent h a n : desc h a n -> n_parent n <> None.
Proof. destruct 1 as [n _ Hp | n m _ _ Hp _]; rewrite Hp; discriminate. Qed.

Lemma climb_total h : wf h = true -> forall f i, (idx h i < f)%nat -> exists r, climb f h i = Some r.
Proof.
  intros Hw. induction f as [|f IH]; intros i Hf; [lia|].
  cbn [climb]. destruct (get h i) as [n|] eqn:G; [|eauto].
  destruct (n_parent n) as [p|] eqn:P; [|eauto].
  apply get_some in G. destruct G as [Hn <-].
  apply IH. pose proof (wf_parent h n p Hw Hn P). lia.
Qed.

Lemma climb_root h : wf h = true -> forall f n r, In n h -> climb f h (n_id n) = Some r ->
  (r = n_id n /\ n_parent n = None) \/ (desc h r n /\ root_node h r).
Proof.
  intros Hw. induction f as [|f IH]; intros n r Hn H; [discriminate|].
  cbn [climb] in H. rewrite (nodup_get h n (wf_nodup h Hw) Hn) in H.
  destruct (n_parent n) as [p|] eqn:P.
  - right. destruct (wf_parent_in h n p Hw Hn P) as (m & Hm & <-).
    destruct (IH m r Hm H) as [[-> Pm]|[Hd Hr]].
    + split; [apply desc_child; assumption|]. exists m. auto.
    + split; [apply desc_step with m; assumption|exact Hr].
  - left. inversion H. auto.
Qed.

Lemma climb_of_root h n f : nodup_ids h = true -> In n h -> n_parent n = None ->
  climb (S f) h (n_id n) = Some (n_id n).
Proof. intros Hd Hn Hp. cbn [climb]. rewrite (nodup_get h n Hd Hn), Hp. reflexivity. Qed.

Lemma desc_climb h r n : wf h = true -> desc h r n -> root_node h r ->
  forall f, (idx h (n_id n) < f)%nat -> climb f h (n_id n) = Some r.
Proof.
  intros Hw Hd (rm & Hrm & <- & Prm).
  induction Hd as [n Hn Hp | n m Hn Hm Hp Hd IH]; intros f Hf.
  - destruct f as [|f]; [lia|]. cbn [climb]. rewrite (nodup_get h n (wf_nodup h Hw) Hn), Hp.
    pose proof (wf_parent h n _ Hw Hn Hp) as Hlt.
    destruct f as [|f]; [lia|]. apply climb_of_root; auto. apply wf_nodup; exact Hw.
  - destruct f as [|f]; [lia|]. cbn [climb]. rewrite (nodup_get h n (wf_nodup h Hw) Hn), Hp.
    apply IH. pose proof (wf_parent h n _ Hw Hn Hp). lia.
Qed.

Lemma root_id_total h n : wf h = true -> exists r, root_id h (n_id n) = Some r.
Proof. intros Hw. apply climb_total; [exact Hw|]. pose proof (idx_le h (n_id n)). lia. Qed.

(* same_tree, unfolded *)
Lemma root_id_desc h r n : wf h = true -> In n h -> desc h r n -> root_node h r -> root_id h (n_id n) = Some r.
Proof.
  intros Hw Hn Hd Hr. apply desc_climb; auto. pose proof (idx_le h (n_id n)). lia.
Qed.

Lemma root_id_root h n : wf h = true -> In n h -> n_parent n = None -> root_id h (n_id n) = Some (n_id n).
Proof. intros Hw Hn Hp. apply climb_of_root; auto. apply wf_nodup; exact Hw. Qed.

Lemma same_tree_spec h a b : same_tree h a b = true <-> exists r, root_id h (n_id a) = Some r /\ root_id h (n_id b) = Some r.
Proof.
  unfold same_tree, opt_N_eqb. destruct (root_id h (n_id a)) as [x|]; destruct (root_id h (n_id b)) as [y|].
  - rewrite N.eqb_eq. split; [intros ->; eauto | intros (r & H1 & H2); congruence].
  - split; [discriminate | intros (r & _ & H); discriminate].
  - split; [discriminate | intros (r & H & _); discriminate].
  - split; [discriminate | intros (r & H & _); discriminate].
Qed.

(* descendants of the root are reached when the only obstacle is a leaf (or the root itself) *)
Lemma desc_under h (rm c : node) n :
  nodup_ids h = true -> In rm h -> n_parent rm = None -> In c h ->
  (n_id c = n_id rm \/ is_leaf h c = true) ->
  desc h (n_id rm) n -> n_id n <> n_id c -> under h [n_id rm; n_id c] (n_id rm) n.
Proof.
  intros Hd Hrm Prm Hc Hcase H. induction H as [n Hn Hp | n m Hn Hm Hp Hdm IH]; intros Hne.
  - apply under_child; auto. intros [E|[E|[]]]; [|congruence].
    assert (rm = n) as -> by (apply (nodup_inj h); auto). rewrite Prm in Hp. discriminate.
  - apply under_step with m; auto.
    + intros [E|[E|[]]]; [|congruence].
      assert (rm = n) as -> by (apply (nodup_inj h); auto). rewrite Prm in Hp. discriminate.
    + apply IH. intros E. destruct Hcase as [Er|Hleaf].
      * assert (m = rm) as -> by (apply (nodup_inj h); auto; congruence).
        apply desc_has_parent in Hdm. contradiction.
      * assert (m = c) as -> by (apply (nodup_inj h); auto).
        unfold is_leaf in Hleaf. apply negb_true_iff in Hleaf.
        assert (existsb (is_child (n_id c)) h = true) as Hx.
        { apply existsb_exists. exists n. split; [exact Hn|]. apply is_child_spec. exact Hp. }
        rewrite Hx in Hleaf. discriminate.
Qed.

(* THE characterisation of find_related for a case that is a root or a leaf *)
Lemma find_related_is_tree h c : wf h = true -> In c h -> (is_root c || is_leaf h c) = true ->
  exists l, find_related h (n_id c) = Some l /\ NoDup (ids l) /\
    forall n, In n l <-> (In n h /\ n_id n <> n_id c /\ same_tree h n c = true).
Proof.
  intros Hw Hc Hrl. pose proof (wf_nodup h Hw) as Hd.
  unfold find_related.
  destruct (root_id_total h c Hw) as (r & Hr). rewrite Hr.
  destruct (climb_root h Hw _ c r Hc Hr) as [[-> Pc]|[Hdc (rm & Hrm & Erm & Prm)]].
  - (* c is the root *)
    rewrite (nodup_get h c Hd Hc).
    assert (mem (n_id c) [n_id c] = true) as -> by (apply mem_spec; left; reflexivity).
    destruct (traverse_full h (n_id c) [n_id c]) as (out & seen' & Ht). rewrite Ht.
    pose proof (traverse_ok h _ _ _ _ _ Ht) as T.
    exists out. cbn [app]. split; [reflexivity|]. split; [apply (t_nodup _ _ _ _ _ T)|].
    intros n. rewrite (tspec_iff h _ _ _ _ Hd T n). split.
    + intros Hu. split; [apply under_in in Hu; exact Hu|]. split.
      * intros E. apply under_unseen in Hu. apply Hu. left. symmetry. exact E.
      * apply same_tree_spec. exists (n_id c). split; [|exact Hr].
        apply root_id_desc; auto; [apply under_in in Hu; exact Hu | apply under_desc in Hu; exact Hu|].
        exists c. auto.
    + intros (Hn & Hne & Hs). apply same_tree_spec in Hs. destruct Hs as (r' & Hrn & Hrc).
      rewrite Hr in Hrc. inversion Hrc; subst r'.
      destruct (climb_root h Hw _ n _ Hn Hrn) as [[E _]|[Hdn _]]; [congruence|].
      apply under_weaken with [n_id c; n_id c]; [intros i [<-|[]]; left; reflexivity|].
      apply desc_under; auto.
  - (* c is a leaf below the root rm *)
    subst r. assert (n_id rm <> n_id c) as Hne.
    { intros E. assert (rm = c) as -> by (apply (nodup_inj h); auto).
      apply desc_has_parent in Hdc. contradiction. }
    assert (is_leaf h c = true) as Hleaf.
    { apply orb_true_iff in Hrl. destruct Hrl as [Hroot|Hl]; [|exact Hl].
      unfold is_root in Hroot. apply desc_has_parent in Hdc. destruct (n_parent c); [discriminate|contradiction]. }
    rewrite (nodup_get h rm Hd Hrm).
    assert (mem (n_id rm) [n_id c] = false) as ->.
    { destruct (mem (n_id rm) [n_id c]) eqn:E; [|reflexivity]. apply mem_spec in E. destruct E as [E|[]]. congruence. }
    destruct (traverse_full h (n_id rm) [n_id rm; n_id c]) as (out & seen' & Ht). rewrite Ht.
    pose proof (traverse_ok h _ _ _ _ _ Ht) as T.
    exists (rm :: out). split; [reflexivity|]. split.
    + unfold ids. cbn [map]. constructor; [|apply (t_nodup _ _ _ _ _ T)].
      intros Hin. apply in_map_iff in Hin. destruct Hin as (x & Ex & Hx).
      apply (t_under _ _ _ _ _ T) in Hx. apply under_unseen in Hx. apply Hx. left. symmetry. exact Ex.
    + intros n. cbn [In]. rewrite (tspec_iff h _ _ _ _ Hd T n). split.
      * intros [<-|Hu].
        -- split; [exact Hrm|]. split; [exact Hne|]. apply same_tree_spec. exists (n_id rm).
           split; [apply root_id_root; auto|exact Hr].
        -- split; [apply under_in in Hu; exact Hu|]. split.
           ++ intros E. apply under_unseen in Hu. apply Hu. right. left. symmetry. exact E.
           ++ apply same_tree_spec. exists (n_id rm). split; [|exact Hr].
              apply root_id_desc; auto; [apply under_in in Hu; exact Hu | apply under_desc in Hu; exact Hu|].
              exists rm. auto.
      * intros (Hn & Hnc & Hs). apply same_tree_spec in Hs. destruct Hs as (r' & Hrn & Hrc).
        rewrite Hr in Hrc. inversion Hrc; subst r'.
        destruct (climb_root h Hw _ n _ Hn Hrn) as [[E Pn]|[Hdn _]].
        -- left. apply (nodup_inj h); auto.
        -- right. apply desc_under; auto.
Qed.

(* ---------- the path heuristic ---------- *)
Lemma ref_match_long lv rv : forall l r, (length r < length l)%nat -> ref_match lv rv l r = false.
Proof.
  induction l as [|a l IH]; intros r H; cbn [length] in H; [lia|].
  destruct r as [|b r]; [reflexivity|]. cbn [ref_match length] in *. rewrite IH; [apply andb_false_r|lia].
Qed.

Lemma zip_match_region lv rv : forall l r, seg_region lv rv l r = true -> (length l <= length r)%nat ->
  zip_match lv rv l r = Some (ref_match lv rv l r).
Proof.
  induction l as [|a l IH]; intros r Hreg Hlen; [destruct r; reflexivity|].
  destruct r as [|b r]; [cbn [length] in Hlen; lia|].
  cbn [seg_region] in Hreg. apply andb_true_iff in Hreg. destruct Hreg as [Hseg Hreg].
  cbn [length] in Hlen. assert (length l <= length r)%nat as Hlen' by lia.
  unfold zip_match in *. cbn [zip_match_with ref_match]. unfold seg_same.
  destruct (starts_brace a && starts_brace b).
  - destruct (rp_get lv a) as [x|]; [|discriminate]. destruct (rp_get rv b) as [y|]; [|discriminate].
    destruct (str_eqb x y); [apply IH; assumption|reflexivity].
  - destruct (str_eqb a b); cbn [negb andb orb] in *.
    + apply IH; assumption.
    + rewrite Hseg. reflexivity.
Qed.

Lemma prefix_partial lp lv rp rv : prefix_region lp lv rp rv = true ->
  is_prefix lp lv rp rv = Some (resource_prefix lp lv rp rv).
Proof.
  unfold prefix_region, is_prefix, is_prefix_with, resource_prefix. intros H.
  destruct (Nat.ltb (length (parts rp)) (length (parts lp))) eqn:E.
  - apply Nat.ltb_lt in E. rewrite ref_match_long; auto.
  - apply Nat.ltb_ge in E. apply zip_match_region; assumption.
Qed.

(* the heuristic never rejects what the reference accepts *)
Lemma zip_match_ref lv rv : forall l r, ref_match lv rv l r = true -> zip_match lv rv l r = Some true.
Proof.
  induction l as [|a l IH]; intros r H; [destruct r; reflexivity|].
  destruct r as [|b r]; [discriminate|].
  cbn [ref_match] in H. apply andb_true_iff in H. destruct H as [Hs H].
  unfold zip_match in *. cbn [zip_match_with]. unfold seg_same in Hs.
  destruct (starts_brace a && starts_brace b).
  - destruct (rp_get lv a) as [x|]; [|discriminate]. destruct (rp_get rv b) as [y|]; [|discriminate].
    rewrite Hs. apply IH. exact H.
  - rewrite Hs. cbn [negb andb]. apply IH. exact H.
Qed.

Lemma prefix_lenient lp lv rp rv : resource_prefix lp lv rp rv = true -> is_prefix lp lv rp rv = Some true.
Proof.
  unfold resource_prefix, is_prefix, is_prefix_with. intros H.
  destruct (Nat.ltb (length (parts rp)) (length (parts lp))) eqn:E.
  - apply Nat.ltb_lt in E. rewrite ref_match_long in H; [discriminate|exact E].
  - apply zip_match_ref. exact H.
Qed.

Definition s_cla_id : str := [47; 99; 108; 97; 47; 123; 105; 100; 125].               (* /cla/{id} *)
Definition s_clas_id : str := [47; 99; 108; 97; 115; 47; 123; 105; 100; 125].        (* /clas/{id} *)
Definition s_class_id : str := [47; 99; 108; 97; 115; 115; 47; 123; 105; 100; 125].  (* /class/{id} *)
(* F7: one plural s is still tolerated *)
Lemma prefix_refuted :
  is_prefix s_cla_id [(s_id, s_one)] s_clas_id [(s_id, s_one)] = Some true /\
  resource_prefix s_cla_id [(s_id, s_one)] s_clas_id [(s_id, s_one)] = false.
Proof. split; vm_compute; reflexivity. Qed.

(* F3 (fixed by e735a769): the rstrip sentinel accepts /clas/{id} as a prefix of /class/{id},
   the code and the reference do not, and the pair lies inside prefix_region *)
Lemma prefix_rstrip_sentinel_refuted :
  is_prefix_rstrip s_clas_id [(s_id, s_one)] s_class_id [(s_id, s_one)] = Some true /\
  is_prefix s_clas_id [(s_id, s_one)] s_class_id [(s_id, s_one)] = Some false /\
  resource_prefix s_clas_id [(s_id, s_one)] s_class_id [(s_id, s_one)] = false /\
  prefix_region s_clas_id [(s_id, s_one)] s_class_id [(s_id, s_one)] = true.
Proof. repeat split; vm_compute; reflexivity. Qed.

Lemma prefix_region_nonvacuous :
  prefix_region s_users_id [(s_id, s_one)] (s_users_id ++ [47; 120]) [(s_id, s_one)] = true /\
  resource_prefix s_users_id [(s_id, s_one)] (s_users_id ++ [47; 120]) [(s_id, s_one)] = true.
Proof. split; vm_compute; reflexivity. Qed.

(* ---------- methods: lower() == delete  iff  upper() == DELETE ---------- *)
Lemma lower_upper_c c x : 97 <= x -> x <= 122 -> (lower_c c = x <-> upper_c c = x - 32).
Proof.
  intros H1 H2. unfold lower_c, upper_c, is_upper, is_lower.
  destruct (65 <=? c) eqn:A; destruct (c <=? 90) eqn:B; destruct (97 <=? c) eqn:C; destruct (c <=? 122) eqn:D;
    cbn [andb];
    try apply N.leb_le in A; try apply N.leb_gt in A; try apply N.leb_le in B; try apply N.leb_gt in B;
    try apply N.leb_le in C; try apply N.leb_gt in C; try apply N.leb_le in D; try apply N.leb_gt in D; lia.
Qed.

Lemma lower_upper_str : forall t m, Forall (fun x => 97 <= x /\ x <= 122) t ->
  (lower_ascii m = t <-> upper_ascii m = map (fun x => x - 32) t).
Proof.
  induction t as [|x t IH]; intros m Ht.
  - destruct m; cbn; split; intros H; try reflexivity; discriminate.
  - inversion Ht as [|? ? [Hx1 Hx2] Ht']; subst. destruct m as [|c m]; [cbn; split; discriminate|].
    unfold lower_ascii, upper_ascii in *. cbn [map]. split; intros H; injection H as Hc Hm.
    + f_equal; [apply (proj1 (lower_upper_c c x Hx1 Hx2)); exact Hc | apply (proj1 (IH m Ht')); exact Hm].
    + f_equal; [apply (proj2 (lower_upper_c c x Hx1 Hx2)); exact Hc | apply (proj2 (IH m Ht')); exact Hm].
Qed.

Lemma delete_lower_upper m : str_eqb (lower_ascii m) M_delete = str_eqb (upper_ascii m) M_DELETE.
Proof.
  apply eq_true_iff_eq. rewrite !str_eqb_spec.
  change M_DELETE with (map (fun x => x - 32) M_delete). apply lower_upper_str.
  unfold M_delete. repeat (apply Forall_cons; [split; lia|]). apply Forall_nil.
Qed.

(* ---------- the checked case is the last one recorded ---------- *)
Lemma last_decomp h c : is_last h c = true -> exists h' n, h = h' ++ [n] /\ n_id n = n_id c.
Proof.
  unfold is_last. destruct (rev h) as [|n t] eqn:E; [discriminate|]. intros H. apply N.eqb_eq in H.
  exists (rev t), n. split; [|exact H]. rewrite <- (rev_involutive h), E. reflexivity.
Qed.

Lemma nodup_snoc h' n : nodup_ids (h' ++ [n]) = true -> forall x, In x h' -> n_id x <> n_id n.
Proof.
  induction h' as [|a h' IH]; intros Hd x Hx; [destruct Hx|].
  cbn [app nodup_ids] in Hd. apply andb_true_iff in Hd. destruct Hd as [Ha Hd].
  destruct Hx as [<-|Hx]; [|apply IH; assumption].
  intros E. apply negb_true_iff in Ha.
  assert (existsb (fun m => N.eqb (n_id m) (n_id a)) (h' ++ [n]) = true) as Hc.
  { apply existsb_exists. exists n. split; [apply in_or_app; right; left; reflexivity|].
    rewrite E. apply N.eqb_refl. }
  rewrite Hc in Ha. discriminate.
Qed.

Lemma earlier_snoc h' n c : (forall x, In x h' -> n_id x <> n_id c) -> n_id n = n_id c -> earlier (h' ++ [n]) c = h'.
Proof.
  intros H E. induction h' as [|a h' IH]; cbn [app earlier].
  - rewrite E, N.eqb_refl. reflexivity.
  - assert (N.eqb (n_id a) (n_id c) = false) as -> by (apply N.eqb_neq; apply H; left; reflexivity).
    rewrite IH; [reflexivity|]. intros x Hx. apply H. right. exact Hx.
Qed.

Lemma idx_snoc h' n i : (forall x, In x h' -> n_id x <> i) -> n_id n = i -> idx (h' ++ [n]) i = length h'.
Proof.
  intros H E. induction h' as [|a h' IH]; cbn [app idx length].
  - rewrite E, N.eqb_refl. reflexivity.
  - assert (N.eqb (n_id a) i = false) as -> by (apply N.eqb_neq; apply H; left; reflexivity).
    rewrite IH; [reflexivity|]. intros x Hx. apply H. right. exact Hx.
Qed.

Lemma earlier_incl h c x : In x (earlier h c) -> In x h /\ n_id x <> n_id c.
Proof.
  induction h as [|a h IH]; cbn [earlier]; [intros []|].
  destruct (N.eqb (n_id a) (n_id c)) eqn:E; [intros []|].
  intros [<-|Hx]; [split; [left; reflexivity|apply N.eqb_neq; exact E]|].
  destruct (IH Hx) as [H1 H2]. split; [right; exact H1|exact H2].
Qed.

Lemma later_incl l p x : In x (later l p) -> In x l.
Proof.
  induction l as [|a l IH]; cbn [later]; [intros []|].
  destruct (N.eqb (n_id a) (n_id p)); intros H; right; [exact H|apply IH; exact H].
Qed.

Lemma last_earlier h c x : wf h = true -> is_last h c = true -> In x h -> n_id x <> n_id c -> In x (earlier h c).
Proof.
  intros Hw Hl Hx Hne. destruct (last_decomp h c Hl) as (h' & n & -> & E).
  pose proof (nodup_snoc h' n (wf_nodup _ Hw)) as Hs.
  rewrite earlier_snoc; [|intros y Hy; rewrite <- E; apply Hs; exact Hy|exact E].
  apply in_app_or in Hx. destruct Hx as [Hx|[<-|[]]]; [exact Hx|contradiction].
Qed.

Lemma last_leaf h c : wf h = true -> is_last h c = true -> is_leaf h c = true.
Proof.
  intros Hw Hl. unfold is_leaf. apply negb_true_iff.
  destruct (existsb (is_child (n_id c)) h) eqn:Ex; [|reflexivity]. exfalso.
  apply existsb_exists in Ex. destruct Ex as (m & Hm & Hc). apply is_child_spec in Hc.
  pose proof (wf_parent h m _ Hw Hm Hc) as Hlt. pose proof (idx_in h m Hm) as Hlen.
  destruct (last_decomp h c Hl) as (h' & n & -> & E).
  pose proof (nodup_snoc h' n (wf_nodup _ Hw)) as Hs.
  rewrite (idx_snoc h' n (n_id c)) in Hlt; [|intros y Hy; rewrite <- E; apply Hs; exact Hy|exact E].
  rewrite app_length in Hlen. cbn [length] in Hlen. lia.
Qed.

Lemma find_parent_wf h r : wf h = true -> In r h ->
  (n_parent r = None /\ find_parent h (n_id r) = FPNone) \/
  (exists p, n_parent r = Some (n_id p) /\ In p h /\ find_parent h (n_id r) = FPSome p).
Proof.
  intros Hw Hr. unfold find_parent. rewrite (nodup_get h r (wf_nodup _ Hw) Hr).
  destruct (n_parent r) as [pid|] eqn:P; [right|left; auto].
  destruct (wf_parent_in h r pid Hw Hr P) as (m & Hm & <-).
  exists m. rewrite (nodup_get h m (wf_nodup _ Hw) Hm). auto.
Qed.

Lemma find_response_in h n : nodup_ids h = true -> In n h -> find_response h (n_id n) = n_status n.
Proof. intros Hd Hn. unfold find_response. rewrite (nodup_get h n Hd Hn). reflexivity. Qed.

(* ---------- use_after_free ---------- *)
Definition uaf_test (h : history) (c r : node) : bool :=
  match find_parent h (n_id r) with
  | FPSome p => str_eqb (lower_ascii (n_method r)) M_delete && in_2xx (find_response h (n_id p)) &&
                match is_prefix_n r c with Some true => true | _ => false end
  | _ => false
  end.

Lemma uaf_loop_reported h c : forall rel,
  (forall r, In r rel -> find_parent h (n_id r) <> FPAssert) ->
  (forall r, In r rel -> is_prefix_n r c <> None) ->
  reported (uaf_loop h c rel) = existsb (uaf_test h c) rel.
Proof.
  induction rel as [|r rel IH]; intros H1 H2; [reflexivity|].
  assert (reported (uaf_loop h c rel) = existsb (uaf_test h c) rel) as IH'.
  { apply IH; intros x Hx; [apply H1|apply H2]; right; exact Hx. }
  specialize (H1 r (or_introl eq_refl)). specialize (H2 r (or_introl eq_refl)).
  cbn [uaf_loop existsb]. unfold uaf_test at 1.
  destruct (find_parent h (n_id r)) as [|p|]; [exact IH'| |contradiction].
  destruct (str_eqb (lower_ascii (n_method r)) M_delete && in_2xx (find_response h (n_id p))); [|exact IH'].
  destruct (is_prefix_n r c) as [[|]|]; [reflexivity|exact IH'|contradiction].
Qed.

Lemma prefix_region_in h c d : prefix_region_all h c = true -> In d h ->
  is_prefix_n d c = Some (same_resource d c).
Proof.
  unfold prefix_region_all. rewrite forallb_forall. intros H Hd. apply prefix_partial. apply (H d Hd).
Qed.

Lemma uaf_key h c l : wf h = true -> In c h -> is_last h c = true ->
  delete_agrees_with_parent h = true -> prefix_region_all h c = true ->
  (forall n, In n l <-> (In n h /\ n_id n <> n_id c /\ same_tree h n c = true)) ->
  existsb (uaf_test h c) l = freed_before h c (earlier h c).
Proof.
  intros Hw Hc Hl Hag Hreg Hiff. pose proof (wf_nodup _ Hw) as Hd.
  unfold delete_agrees_with_parent in Hag. rewrite forallb_forall in Hag.
  apply eq_true_iff_eq. unfold freed_before. rewrite !existsb_exists. split.
  - intros (r & Hr & Ht). apply Hiff in Hr. destruct Hr as (Hrh & Hne & Hst).
    exists r. split; [apply last_earlier; assumption|].
    unfold uaf_test in Ht.
    destruct (find_parent_wf h r Hw Hrh) as [[_ E]|(p & Pp & Hp & E)]; rewrite E in Ht; [discriminate|].
    apply andb_true_iff in Ht. destruct Ht as [Ht Hpre]. apply andb_true_iff in Ht. destruct Ht as [Hm H2xx].
    rewrite (prefix_region_in h c r Hreg Hrh) in Hpre.
    rewrite delete_lower_upper in Hm.
    specialize (Hag r Hrh). unfold has_method in Hag. rewrite Hm in Hag. cbn [negb orb] in Hag.
    apply eqb_prop in Hag. unfold parent_2xx in Hag. rewrite Pp, H2xx in Hag.
    rewrite Hst. unfold has_method. rewrite Hm. rewrite <- Hag.
    destruct (same_resource r c); [reflexivity|discriminate].
  - intros (d & Hde & Ht). apply earlier_incl in Hde. destruct Hde as [Hdh Hne].
    apply andb_true_iff in Ht. destruct Ht as [Ht Hres]. apply andb_true_iff in Ht. destruct Ht as [Ht Hok].
    apply andb_true_iff in Ht. destruct Ht as [Hst Hm].
    exists d. split; [apply Hiff; auto|].
    specialize (Hag d Hdh). rewrite Hm in Hag. cbn [negb orb] in Hag. apply eqb_prop in Hag.
    rewrite Hok in Hag. unfold parent_2xx in Hag. unfold uaf_test.
    destruct (find_parent_wf h d Hw Hdh) as [[P _]|(p & Pp & Hp & E)]; [rewrite P in Hag; discriminate|].
    rewrite E. rewrite Pp in Hag. rewrite Hag. unfold has_method in Hm. rewrite delete_lower_upper, Hm.
    rewrite (prefix_region_in h c d Hreg Hdh), Hres. reflexivity.
Qed.

Lemma uaf_partial h c st : wf h = true -> In c h -> is_last h c = true ->
  delete_agrees_with_parent h = true -> prefix_region_all h c = true -> (st <? 600) = true ->
  reported (use_after_free h c st) = uaf_required h c st /\
  (uaf_required h c st = true -> uaf_allowed h c st = true).
Proof.
  intros Hw Hc Hl Hag Hreg Hst. split.
  2:{ unfold uaf_required. intros H. apply andb_true_iff in H. apply H. }
  pose proof (last_leaf h c Hw Hl) as Hleaf.
  destruct (find_related_is_tree h c Hw Hc) as (l & Hfr & _ & Hiff); [rewrite Hleaf; apply orb_true_r|].
  pose proof (uaf_key h c l Hw Hc Hl Hag Hreg Hiff) as Hkey.
  unfold use_after_free, uaf_required, uaf_allowed. rewrite Hfr, Hst.
  destruct (N.eqb st 404); [reflexivity|]. destruct (500 <=? st); cbn [orb negb andb].
  - rewrite andb_false_r. reflexivity.
  - rewrite andb_true_r. rewrite <- Hkey. apply uaf_loop_reported.
    + intros r Hr. apply Hiff in Hr. destruct Hr as [Hr _].
      destruct (find_parent_wf h r Hw Hr) as [[_ E]|(p & _ & _ & E)]; rewrite E; discriminate.
    + intros r Hr. apply Hiff in Hr. destruct Hr as [Hr _].
      rewrite (prefix_region_in h c r Hreg Hr). discriminate.
Qed.

Lemma uaf_unsound_refuted :
  wf h_unsound = true /\ In c_unsound h_unsound /\ is_last h_unsound c_unsound = true /\
  prefix_region_all h_unsound c_unsound = true /\
  reported (use_after_free h_unsound c_unsound 200) = true /\ uaf_allowed h_unsound c_unsound 200 = false.
Proof. repeat split; try (vm_compute; reflexivity). right. right. left. reflexivity. Qed.

Lemma uaf_incomplete_refuted :
  wf h_missed = true /\ In c_missed h_missed /\ is_last h_missed c_missed = true /\
  prefix_region_all h_missed c_missed = true /\
  reported (use_after_free h_missed c_missed 200) = false /\ uaf_required h_missed c_missed 200 = true.
Proof. repeat split; try (vm_compute; reflexivity). right. left. reflexivity. Qed.

Lemma uaf_nonvacuous :
  wf h_canon = true /\ In c_canon h_canon /\ is_last h_canon c_canon = true /\
  delete_agrees_with_parent h_canon = true /\ prefix_region_all h_canon c_canon = true /\
  use_after_free h_canon c_canon 200 = Reported 2 /\ uaf_required h_canon c_canon 200 = true.
Proof. repeat split; try (vm_compute; reflexivity). right. right. left. reflexivity. Qed.

(* ---------- find_related: the subtree of a case that is neither root nor leaf is skipped ---------- *)
Definition h_chain : history := [post_users 1 None 201; get_user1 2 (Some 1) 200; get_user1 3 (Some 2) 200].
Definition c_mid := get_user1 2 (Some 1) 200.
Definition n_below := get_user1 3 (Some 2) 200.
Lemma find_related_refuted :
  wf h_chain = true /\ In c_mid h_chain /\ In n_below h_chain /\ n_id n_below <> n_id c_mid /\
  same_tree h_chain n_below c_mid = true /\
  option_map ids (find_related h_chain (n_id c_mid)) = Some [1].
Proof.
  repeat split; try (vm_compute; reflexivity).
  - right. left. reflexivity.
  - right. right. left. reflexivity.
  - vm_compute. discriminate.
Qed.

Lemma find_related_nonvacuous :
  wf h_canon = true /\ In c_canon h_canon /\ (is_root c_canon || is_leaf h_canon c_canon) = true /\
  option_map ids (find_related h_canon (n_id c_canon)) = Some [1; 2].
Proof. repeat split; try (vm_compute; reflexivity). right. right. left. reflexivity. Qed.

(* ---------- ensure_resource_availability ---------- *)
Definition avail_hit (h : history) (c r : node) : bool :=
  str_eqb (upper_ascii (n_method r)) M_DELETE && in_2xx (find_response h (n_id r)) &&
  match is_prefix_n r c with Some true => true | _ => false end.

Lemma avail_loop_reported h c b : forall rel x, avail_loop h c b rel = Reported x ->
  x = b /\ forall r, In r rel -> avail_hit h c r = false.
Proof.
  induction rel as [|r rel IH]; intros x H; cbn [avail_loop] in H.
  - inversion H. split; [reflexivity|intros r []].
  - unfold avail_hit.
    destruct (str_eqb (upper_ascii (n_method r)) M_DELETE && in_2xx (find_response h (n_id r))) eqn:E.
    + destruct (is_prefix_n r c) as [[|]|] eqn:P; try discriminate.
      destruct (IH x H) as [Hx Hr]. split; [exact Hx|]. intros r' [<-|Hr'].
      * rewrite E, P. reflexivity.
      * apply Hr in Hr'. exact Hr'.
    + destruct (IH x H) as [Hx Hr]. split; [exact Hx|]. intros r' [<-|Hr'].
      * rewrite E. reflexivity.
      * apply Hr in Hr'. exact Hr'.
Qed.

Lemma avail_sound h c st : wf h = true -> In c h -> is_last h c = true ->
  prefix_region_all h c = true -> parent_not_3xx h c = true -> override_faithful c = true ->
  reported (ensure_resource_availability h c st) = true -> avail_allowed h c st = true.
Proof.
  intros Hw Hc Hl Hreg H3 Hov Hrep. pose proof (wf_nodup _ Hw) as Hd.
  unfold ensure_resource_availability in Hrep. unfold avail_allowed.
  destruct ((400 <=? st) && (st <? 500)) eqn:E4; [|discriminate]. cbn [negb] in Hrep. cbn [andb].
  destruct (find_parent_wf h c Hw Hc) as [[_ E]|(p & Pp & Hp & E)]; rewrite E in Hrep; [discriminate|].
  rewrite Pp. rewrite (nodup_get h p Hd Hp).
  rewrite (find_response_in h p Hd Hp) in Hrep.
  destruct (n_status p) as [ps|] eqn:Sp; [|discriminate].
  destruct (str_eqb (upper_ascii (n_method p)) M_POST && in_2xx_3xx (Some ps)) eqn:Em; [|discriminate].
  apply andb_true_iff in Em. destruct Em as [Em Ews].
  rewrite (prefix_region_in h c p Hreg Hp) in Hrep.
  destruct (same_resource p c) eqn:Eres; [|discriminate].
  destruct (overrides_all c) eqn:Eov; [|discriminate].
  pose proof (last_leaf h c Hw Hl) as Hleaf.
  destruct (find_related_is_tree h c Hw Hc) as (l & Hfr & _ & Hiff); [rewrite Hleaf; apply orb_true_r|].
  rewrite Hfr in Hrep.
  destruct (avail_loop h c (n_id p) l) as [|x|] eqn:Eloop; try discriminate.
  apply avail_loop_reported in Eloop. destruct Eloop as [_ Hno].
  unfold has_method. rewrite Em. cbn [andb].
  assert (succeeded p = true) as ->.
  { unfold succeeded. rewrite Sp. unfold parent_not_3xx in H3. rewrite Pp in H3.
    rewrite (find_response_in h p Hd Hp), Sp in H3. cbn [in_2xx_3xx] in Ews. cbn [in_2xx].
    apply andb_true_iff in Ews. destruct Ews as [A B]. rewrite A. cbn [andb].
    apply negb_true_iff in H3. apply N.ltb_lt in B. apply N.leb_le in A.
    destruct (ps <? 300) eqn:C; [reflexivity|]. apply N.ltb_ge in C.
    apply andb_false_iff in H3. destruct H3 as [H3|H3]; [apply N.leb_gt in H3|apply N.ltb_ge in H3]; lia. }
  cbn [andb].
  assert (all_linked c = true) as ->.
  { unfold all_linked. apply forallb_forall. intros q Hq.
    unfold overrides_all in Eov. rewrite forallb_forall in Eov. specialize (Eov q Hq).
    unfold override_faithful in Hov. rewrite forallb_forall in Hov. specialize (Hov q Hq).
    rewrite Eov in Hov. exact Hov. }
  cbn [andb]. apply negb_true_iff. unfold freed_before.
  destruct (existsb _ (later (earlier h c) p)) eqn:Ex; [|reflexivity]. exfalso.
  apply existsb_exists in Ex. destruct Ex as (d & Hdl & Ht).
  apply later_incl in Hdl. apply earlier_incl in Hdl. destruct Hdl as [Hdh Hne].
  apply andb_true_iff in Ht. destruct Ht as [Ht Hres]. apply andb_true_iff in Ht. destruct Ht as [Ht Hok].
  apply andb_true_iff in Ht. destruct Ht as [Hst Hm].
  assert (In d l) as Hdin by (apply Hiff; auto).
  specialize (Hno d Hdin). unfold avail_hit in Hno. unfold has_method in Hm. rewrite Hm in Hno.
  rewrite (find_response_in h d Hd Hdh) in Hno. unfold succeeded in Hok. rewrite Hok in Hno.
  unfold is_prefix_n in Hno. rewrite (prefix_lenient _ _ _ _ Hres) in Hno. discriminate.
Qed.

(* POST 201 -> GET 404 through a link *)
Definition c_avail := get_user1 2 (Some 1) 404.
Definition h_avail : history := [post_users 1 None 201; c_avail].
Lemma avail_nonvacuous :
  wf h_avail = true /\ In c_avail h_avail /\ is_last h_avail c_avail = true /\ prefix_region_all h_avail c_avail = true /\
  parent_not_3xx h_avail c_avail = true /\ override_faithful c_avail = true /\
  ensure_resource_availability h_avail c_avail 404 = Reported 1 /\ avail_allowed h_avail c_avail 404 = true.
Proof. repeat split; try (vm_compute; reflexivity). right. left. reflexivity. Qed.

(* F5: POST 302 -> GET 404 *)
Definition h_avail_3xx : history := [post_users 1 None 302; c_avail].
Lemma avail_refuted_3xx :
  wf h_avail_3xx = true /\ In c_avail h_avail_3xx /\ is_last h_avail_3xx c_avail = true /\
  prefix_region_all h_avail_3xx c_avail = true /\ override_faithful c_avail = true /\
  reported (ensure_resource_availability h_avail_3xx c_avail 404) = true /\ avail_allowed h_avail_3xx c_avail 404 = false.
Proof. repeat split; try (vm_compute; reflexivity). right. left. reflexivity. Qed.

(* F6: the child was built with explicit path parameters, no link provided anything *)
Definition c_nolink := mkn 2 (Some 1) m_get s_users_id id1 p_id [] (Some 404).
Definition h_nolink : history := [post_users 1 None 201; c_nolink].
Lemma avail_refuted_override :
  wf h_nolink = true /\ In c_nolink h_nolink /\ is_last h_nolink c_nolink = true /\
  prefix_region_all h_nolink c_nolink = true /\ parent_not_3xx h_nolink c_nolink = true /\
  reported (ensure_resource_availability h_nolink c_nolink 404) = true /\ avail_allowed h_nolink c_nolink 404 = false.
Proof. repeat split; try (vm_compute; reflexivity). right. left. reflexivity. Qed.

(* F7 seen from the checks: DELETE /cla/1 accused for GET /clas/1 *)
Definition s_cla : str := [47; 99; 108; 97].
Definition h_clas : history :=
  [mkn 1 None m_post s_cla no_comp [] [] (Some 201);
   mkn 2 (Some 1) m_delete s_cla_id id1 p_id p_id (Some 204);
   mkn 3 (Some 2) m_get s_clas_id id1 p_id p_id (Some 200)].
Definition c_clas := mkn 3 (Some 2) m_get s_clas_id id1 p_id p_id (Some 200).
Lemma uaf_refuted_prefix :
  wf h_clas = true /\ In c_clas h_clas /\ is_last h_clas c_clas = true /\ delete_agrees_with_parent h_clas = true /\
  reported (use_after_free h_clas c_clas 200) = true /\ uaf_allowed h_clas c_clas 200 = false.
Proof. repeat split; try (vm_compute; reflexivity). right. right. left. reflexivity. Qed.

(* what was accused before e735a769 is left alone now: DELETE /clas/1 204 -> GET /class/1 200, all regions hold *)
Definition h_class : history :=
  [mkn 1 None m_post s_cla no_comp [] [] (Some 201);
   mkn 2 (Some 1) m_delete s_clas_id id1 p_id p_id (Some 204);
   mkn 3 (Some 2) m_get s_class_id id1 p_id p_id (Some 200)].
Definition c_class := mkn 3 (Some 2) m_get s_class_id id1 p_id p_id (Some 200).
Lemma uaf_class_not_accused :
  wf h_class = true /\ In c_class h_class /\ is_last h_class c_class = true /\ delete_agrees_with_parent h_class = true /\
  prefix_region_all h_class c_class = true /\
  use_after_free h_class c_class 200 = Pass /\ uaf_allowed h_class c_class 200 = false.
Proof. repeat split; try (vm_compute; reflexivity). right. right. left. reflexivity. Qed.

(* ---------- unrelated resources are never accused ---------- *)
Lemma unrelated_never_reported h c st : wf h = true -> In c h -> is_last h c = true ->
  delete_agrees_with_parent h = true -> prefix_region_all h c = true ->
  parent_not_3xx h c = true -> override_faithful c = true -> (st <? 600) = true ->
  (forall d, In d h -> n_id d <> n_id c -> same_resource d c = false) ->
  reported (use_after_free h c st) = false /\ reported (ensure_resource_availability h c st) = false.
Proof.
  intros Hw Hc Hl Hag Hreg H3 Hov Hst Hun. split.
  - destruct (uaf_partial h c st Hw Hc Hl Hag Hreg Hst) as [-> _].
    unfold uaf_required, uaf_allowed, freed_before.
    destruct (existsb _ (earlier h c)) eqn:Ex; [|rewrite andb_false_r; reflexivity].
    apply existsb_exists in Ex. destruct Ex as (d & Hd & Ht). apply earlier_incl in Hd.
    apply andb_true_iff in Ht. destruct Ht as [_ Hres]. rewrite (Hun d (proj1 Hd) (proj2 Hd)) in Hres. discriminate.
  - destruct (reported (ensure_resource_availability h c st)) eqn:E; [|reflexivity].
    pose proof (avail_sound h c st Hw Hc Hl Hreg H3 Hov E) as Ha. unfold avail_allowed in Ha.
    apply andb_true_iff in Ha. destruct Ha as [_ Ha].
    destruct (n_parent c) as [pid|] eqn:Pc; [|discriminate]. destruct (get h pid) as [p|] eqn:G; [|discriminate].
    apply get_some in G. destruct G as [Hp Ep].
    assert (n_id p <> n_id c) as Hne.
    { intros E'. pose proof (wf_parent h c pid Hw Hc Pc) as Hlt. rewrite <- Ep, E' in Hlt. lia. }
    rewrite (Hun p Hp Hne) in Ha.
    rewrite !andb_false_r in Ha. cbn [andb] in Ha. discriminate.
Qed.

(* another identifier of the same collection: nobody is accused *)
Definition id2 : comp := explicit [(s_id, [50])].
Definition c_other := mkn 3 (Some 2) m_get s_users_id id2 p_id p_id (Some 200).
Definition s_orders : str := [47; 111; 114; 100; 101; 114; 115].   (* /orders *)
Definition h_other : history := [mkn 1 None m_post s_orders no_comp [] [] (Some 201); delete_user1 2 (Some 1) 204; c_other].
Lemma unrelated_nonvacuous :
  wf h_other = true /\ In c_other h_other /\ is_last h_other c_other = true /\
  delete_agrees_with_parent h_other = true /\ prefix_region_all h_other c_other = true /\
  parent_not_3xx h_other c_other = true /\ override_faithful c_other = true /\
  forallb (fun d => N.eqb (n_id d) (n_id c_other) || negb (same_resource d c_other)) h_other = true.
Proof. repeat split; try (vm_compute; reflexivity). right. right. left. reflexivity. Qed.

(* ---------- the 'all parameters come from links' test is per (location, name) ---------- *)
Lemma avail_with_is_code h c st :
  ensure_resource_availability_with overrides_all h c st = ensure_resource_availability h c st.
Proof. reflexivity. Qed.

Lemma linked_at_In c p : linked_at c p = true <-> In p (n_linked c).
Proof.
  unfold linked_at. rewrite existsb_exists. split.
  - intros (q & Hq & E). apply andb_true_iff in E. destruct E as [E1 E2].
    apply N.eqb_eq in E1. apply str_eqb_spec in E2. destruct p, q. cbn in *. subst. exact Hq.
  - intros Hp. exists p. split; [exact Hp|]. rewrite N.eqb_refl, str_eqb_refl. reflexivity.
Qed.

(* reported only if every declared parameter (location, name) of the request was provided by a link *)
Lemma avail_only_if_located_linked h c st : wf h = true -> In c h -> is_last h c = true ->
  prefix_region_all h c = true -> parent_not_3xx h c = true -> override_faithful c = true ->
  reported (ensure_resource_availability h c st) = true ->
  forall loc name, In (loc, name) (n_params c) -> In (loc, name) (n_linked c).
Proof.
  intros Hw Hc Hl Hreg H3 Hov Hrep loc name Hp.
  pose proof (avail_sound h c st Hw Hc Hl Hreg H3 Hov Hrep) as Ha.
  unfold avail_allowed in Ha.
  destruct ((400 <=? st) && (st <? 500)); [|discriminate]. cbn [andb] in Ha.
  destruct (n_parent c) as [pid|]; [|discriminate].
  destruct (get h pid) as [p|]; [|discriminate].
  apply andb_true_iff in Ha. destruct Ha as [Ha _]. apply andb_true_iff in Ha. destruct Ha as [_ Ha].
  unfold all_linked in Ha. rewrite forallb_forall in Ha. specialize (Ha _ Hp).
  apply linked_at_In. exact Ha.
Qed.

(* the declared location decides: whatever the other containers hold, a parameter whose own container reports no
   override of its name stops the report *)
Lemma avail_needs_own_container h c st p :
  In p (n_params c) -> param_overridden c p = false -> reported (ensure_resource_availability h c st) = false.
Proof.
  intros Hp Hno. unfold ensure_resource_availability.
  assert (overrides_all c = false) as Eov.
  { unfold overrides_all. destruct (forallb (param_overridden c) (n_params c)) eqn:E; [|reflexivity].
    rewrite forallb_forall in E. rewrite (E p Hp) in Hno. discriminate. }
  rewrite Eov.
  destruct (negb ((400 <=? st) && (st <? 500))); [reflexivity|].
  destruct (find_parent h (n_id c)) as [|q|]; try reflexivity.
  destruct (find_response h (n_id q)); [|reflexivity].
  destruct (str_eqb (upper_ascii (n_method q)) M_POST && in_2xx_3xx (Some n)); [|reflexivity].
  destruct (is_prefix_n q c) as [[|]|]; reflexivity.
Qed.

(* POST /orgs 201 -> GET /orgs/{id}/members?id=..: the link fills path.id (explicit container), the query id is generated *)
Definition s_orgs : str := [47; 111; 114; 103; 115].                                               (* /orgs *)
Definition s_orgs_members : str := s_orgs ++ [47; 123; 105; 100; 125; 47; 109; 101; 109; 98; 101; 114; 115]. (* /orgs/{id}/members *)
Definition generated (d : dict) : comp := {| c_generated := true; c_stored := Some d; c_current := Some d |}.
Definition p_id_path_query : list (N * str) := [(0, s_id); (3, s_id)].
Definition post_orgs : node := mkn 1 None m_post s_orgs no_comp [] [] (Some 201).
Definition c_samename : node :=
  {| n_id := 2; n_parent := Some 1; n_method := m_get; n_path := s_orgs_members; n_pp := id1;
     n_query := generated [(s_id, [97])]; n_headers := no_comp; n_cookies := no_comp;
     n_params := p_id_path_query; n_linked := [(0, s_id)]; n_status := Some 404 |}.
Definition h_samename : history := [post_orgs; c_samename].

Lemma avail_by_name_refuted :
  wf h_samename = true /\ In c_samename h_samename /\ is_last h_samename c_samename = true /\
  prefix_region_all h_samename c_samename = true /\ parent_not_3xx h_samename c_samename = true /\
  override_faithful c_samename = true /\
  reported (ensure_resource_availability_by_name h_samename c_samename 404) = true /\
  avail_allowed h_samename c_samename 404 = false /\
  ensure_resource_availability h_samename c_samename 404 = Pass.
Proof. repeat split; try (vm_compute; reflexivity). right. left. reflexivity. Qed.

(* the same request with both ids from the link (both containers explicit): reported, and allowed *)
Definition c_samename_linked : node :=
  {| n_id := 2; n_parent := Some 1; n_method := m_get; n_path := s_orgs_members; n_pp := id1;
     n_query := explicit [(s_id, [97])]; n_headers := no_comp; n_cookies := no_comp;
     n_params := p_id_path_query; n_linked := p_id_path_query; n_status := Some 404 |}.
Definition h_samename_linked : history := [post_orgs; c_samename_linked].
Lemma avail_samename_nonvacuous :
  wf h_samename_linked = true /\ In c_samename_linked h_samename_linked /\ is_last h_samename_linked c_samename_linked = true /\
  prefix_region_all h_samename_linked c_samename_linked = true /\ parent_not_3xx h_samename_linked c_samename_linked = true /\
  override_faithful c_samename_linked = true /\
  ensure_resource_availability h_samename_linked c_samename_linked 404 = Reported 1 /\
  avail_allowed h_samename_linked c_samename_linked 404 = true.
Proof. repeat split; try (vm_compute; reflexivity). right. left. reflexivity. Qed.
