#!/bin/bash
# usage: goal.sh file.v LINE  -> prints the goal after line LINE (1-based) of the file
f=$1; n=$2
d=$(dirname $f); b=$(basename $f .v)
head -n $n $f > $d/_goal_$b.v
echo 'Show. Abort.' >> $d/_goal_$b.v
timeout 120 coqc -Q /verif/coq/theories Verif $d/_goal_$b.v 2>&1 | tail -${3:-40}
rm -f $d/_goal_$b.* $d/._goal_$b.aux
