#!/bin/bash
# Runs the repository's pinned baseline with the guard OFF and compares with BASELINE.json's stable_pass list.
out=${1:-/root/baseline_run}
mkdir -p $out
cd /repo && env -u SCHEMATHESIS_VERIF /venv/bin/python -m pytest -ra -q -p no:cacheprovider --timeout=900 --continue-on-collection-errors --junitxml=$out/junit.xml > $out/log.txt 2>&1
/venv/bin/python - "$out/junit.xml" <<'PY'
import json, sys, xml.etree.ElementTree as ET
base = json.load(open('/root/.vp/BASELINE.json'))
stable = set(base['stable_pass'])
passed = set()
for tc in ET.parse(sys.argv[1]).getroot().iter('testcase'):
    if not any(ch.tag in ('failure', 'error', 'skipped') for ch in tc):
        passed.add(f"{tc.get('classname')}::{tc.get('name')}")
missing = sorted(stable - passed)
print(f"stable_pass={len(stable)} passed_now={len(passed)} stable_but_not_passing={len(missing)}")
for m in missing[:40]:
    print("  MISSING", m)
PY
