#!/bin/bash
# Runs the repository's pinned baseline (guard OFF) on a scratch worktree of /repo's HEAD (or of the given commit)
# and compares with BASELINE.json's stable_pass list.  Usage: baseline.sh OUTDIR [COMMIT]
out=${1:-/root/baseline_run}
commit=${2:-HEAD}
wt=/tmp/baseline_wt_$$
mkdir -p $out
git -C /repo worktree add --detach $wt $commit > $out/worktree.txt 2>&1 || exit 2
cd $wt && env -u SCHEMATHESIS_VERIF PYTHONPATH=$wt/src /venv/bin/python -m pytest -ra -q -p no:cacheprovider --timeout=900 --continue-on-collection-errors --junitxml=$out/junit.xml > $out/log.txt 2>&1
/venv/bin/python /verif/tools/baseline_compare.py "$out/junit.xml"
cd / && git -C /repo worktree remove --force $wt
