#!/usr/bin/env python3
"""Writes /tmp/seedprops/Cxx_known.txt (what seeding agents must not reuse) from known_findings.jsonl and seeded/*/meta.json."""
import json, sys
from pathlib import Path

V = Path("/verif")
out = Path("/tmp/seedprops"); out.mkdir(exist_ok=True)
props = [json.loads(l) for l in (V / "properties.jsonl").read_text().splitlines() if l.strip()]
finds = [json.loads(l) for l in (V / "known_findings.jsonl").read_text().splitlines() if l.strip()]
seeds = []
for d in sorted((V / "seeded").iterdir()):
    m = d / "meta.json"
    if m.exists():
        seeds.append(json.loads(m.read_text()))
for p in props:
    pid = p["id"]
    (out / f"{pid}.txt").write_text(json.dumps({k: p[k] for k in ("id", "title", "statement", "quantifier", "why_tests_cant", "anchors")}, indent=1))
    lines = [f"Defects of the unchanged code that are ALREADY KNOWN for property {pid}, and changes ALREADY SEEDED by someone else - do NOT use any of these (or a variation of them, or a revert of a listed repair) as your seeded change:\n"]
    for f in finds:
        if f["property"] == pid:
            tag = "known defect" if f.get("status") == "known" else "repaired defect (do not revert the repair)"
            lines.append(f"- [{tag}] {f['what']}")
    for s in seeds:
        if s.get("property") == pid:
            lines.append(f"- [already seeded by someone else] {s.get('summary', '')}")
    (out / f"{pid}_known.txt").write_text("\n".join(lines) + "\n")
print("written", len(props))
