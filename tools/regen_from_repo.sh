#!/bin/bash
# Regenerates the translated model files (Gen_*.v) from /repo/src - run after a seed trial that used VERIF_REPO=<worktree>,
# because such a trial regenerates them from the patched source.
cd /verif && PYTHONPATH=/repo/src:/verif PYTHONHASHSEED=0 SCHEMATHESIS_VERIF=1 /venv/bin/python - <<'PY'
import importlib, json
from harness import core
for c in json.load(open(core.VERIF / "MANIFEST.json"))["checks"]:
    try:
        gen = importlib.import_module(f"harness.props.{c['property_id'].lower()}_gen")
    except ModuleNotFoundError:
        continue
    print(c["property_id"], gen.regenerate().get("changed"))
PY
