#!/bin/bash
# usage: recheck_seed_wt.sh <name> <PROP> : like recheck_seed.sh but on a scratch worktree of /repo HEAD (VERIF_REPO),
# so that it can run while other checks use /repo.  The worktree is removed afterwards.
name=$1; prop=$2
out=/verif/seeded/$name
wt=/root/scratch/recheck_$name
cd /verif
mkdir -p /root/scratch
git -C /repo worktree add -f $wt HEAD -q || exit 2
git -C $wt apply $out/patch.diff || { echo "patch does not apply"; git -C /repo worktree remove --force $wt; exit 2; }
VERIF_REPO=$wt ./check $prop > $out/check_with_patch.log 2>&1; rcc=$?
/verif/tools/regen_from_repo.sh > /dev/null
git -C /repo worktree remove --force $wt
echo "check $prop with $name: rc=$rcc"
grep -E "VIOLATION|^\[" $out/check_with_patch.log | cut -c1-200 | head -3
/venv/bin/python - "$out" "$rcc" <<'PY'
import json, sys
d, rc = sys.argv[1], int(sys.argv[2])
m = json.load(open(d + "/meta.json"))
log = open(d + "/check_with_patch.log").read()
viol = [l for l in log.splitlines() if l.startswith("VIOLATION")]
was = m.get("detected_by_check")
m["detected_by_check"] = rc == 1 and bool(viol)
m["violation_line"] = viol[0] if viol else None
if was is False and m["detected_by_check"]:
    m.setdefault("history", "MISSED by the first version of the check; detected after the check was strengthened (see DESIGN.md 9.4 and notes/).")
json.dump(m, open(d + "/meta.json", "w"), indent=1)
PY
