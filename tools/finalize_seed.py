#!/usr/bin/env python3
"""usage: finalize_seed.py <name> <PROP> <worktree> : writes seeded/<name>/meta.json and removes the scratch worktree."""
import json, subprocess, sys
from pathlib import Path
name, prop, wt = sys.argv[1:4]
d = Path("/verif/seeded") / name
agent = json.loads((d / "meta.agent.json").read_text()) if (d / "meta.agent.json").exists() else {}
res = json.loads((d / "result.json").read_text())
log = (d / "check_with_patch.log").read_text()
viol = [l for l in log.splitlines() if l.startswith("VIOLATION")]
meta = {
    "property": prop,
    "summary": agent.get("summary"),
    "needs_to_manifest": agent.get("needs"),
    "files": agent.get("files"),
    "tests_run_by_author": agent.get("tests_run"),
    "confirmed": {
        "demo_exit_without_patch": res["demo_rc_without_patch"],
        "demo_exit_with_patch": res["demo_rc_with_patch"],
        "how": "tools/try_seed.sh: demo.py run in the author's scratch worktree with the change stashed and applied; then `git -C /repo apply patch.diff; ./check %s; git -C /repo checkout -- .`" % prop,
    },
    "detected_by_check": res["check_rc_with_patch"] == 1 and bool(viol),
    "violation_line": viol[0] if viol else None,
}
(d / "meta.json").write_text(json.dumps(meta, indent=1))
(d / "meta.agent.json").unlink(missing_ok=True)
(d / "result.json").unlink(missing_ok=True)
subprocess.run(["git", "-C", "/repo", "worktree", "remove", "--force", wt])
print(json.dumps(meta, indent=1)[:600])
