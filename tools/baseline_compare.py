import json
import sys
import xml.etree.ElementTree as ET

base = json.load(open("/root/.vp/BASELINE.json"))
stable = set(base["stable_pass"])
passed = set()
for tc in ET.parse(sys.argv[1]).getroot().iter("testcase"):
    if not any(ch.tag in ("failure", "error", "skipped") for ch in tc):
        passed.add(f"{tc.get('classname')}::{tc.get('name')}")
missing = sorted(stable - passed)
print(f"stable_pass={len(stable)} passed_now={len(passed)} stable_but_not_passing={len(missing)}")
for m in missing[:60]:
    print("  MISSING", m)
