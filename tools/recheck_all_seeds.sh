#!/bin/bash
# Rechecks every seeded regression on scratch worktrees; seeds of one property run one after the other (they share the
# regenerated Gen_*.v files), PAR properties at a time.  usage: recheck_all_seeds.sh [PAR]
par=${1:-3}
cd /verif
ls seeded | grep -oE '^C[0-9]{2}' | sort -u | xargs -P $par -I{} sh -c 'for n in $(ls seeded | grep "^{}_"); do tools/recheck_seed_wt.sh $n {} 2>&1 | head -1; done'
/venv/bin/python tools/gen_seed_table.py > /dev/null
echo "not detected:"; grep -L '"detected_by_check": true' seeded/*/meta.json
