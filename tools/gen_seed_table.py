#!/usr/bin/env python3
"""Writes /verif/seeded/README.md: one row per seeded regression (from the meta.json files)."""
import glob, json
rows = []
for f in sorted(glob.glob("/verif/seeded/*/meta.json")):
    m = json.load(open(f))
    name = f.split("/")[-2]
    det = "yes" if m.get("detected_by_check") else "NO"
    v = m.get("violation_line") or ""
    how = "failing input" if det == "yes" and "no-failing-input-found" not in v else ("tie broken, no failing input" if det == "yes" else "-")
    hist = "strengthened after a miss / weak detection" if m.get("history") else "first run"
    rows.append(f"| `{name}` | {m['property']} | {(m.get('summary') or '')[:170].replace('|','/')} | {(m.get('needs_to_manifest') or '')[:150].replace('|','/')} | {det} ({how}) | {hist} |")
text = "# Seeded regressions\n\nEach directory: `patch.diff` (apply with `git -C /repo apply`), `demo.py` (fails with the patch, passes without), `meta.json`.\nWritten by sub-agents that saw only the property text and a scratch worktree; confirmed with `tools/try_seed.sh` / `tools/recheck_seed.sh`.\n\n| seed | property | change | needs to manifest | detected by ./check | history |\n|---|---|---|---|---|---|\n" + "\n".join(rows) + "\n"
open("/verif/seeded/README.md", "w").write(text)
print(len(rows), "seeds;", sum(1 for r in rows if "| yes" in r), "detected")
