#!/usr/bin/env python3
"""Regenerates /verif/MANIFEST.json from the table below (keeps it valid at all times)."""
import json
import subprocess
from pathlib import Path

VERIF = Path(__file__).resolve().parent.parent
TECH = "machine-checked proof in Coq 8.16 (theorems over a Gallina model, closed under the global context) + per-run correspondence of the executable model (vm_compute in coqc) against the implementation in /repo/src"

CHECKS = {
 "C05": dict(cat="proof", ref="DESIGN.md section 7 C05, section 9",
   text="Theorems over the unit-phase LTS (all behaviours of the operations incl. test-construction errors, any number of workers >= 1, every interleaving without stop request): a complete run reports every operation with the status its behaviour implies, the phase is FAILURE/ERROR as soon as one operation failed or errored, and it is clean only if all passed and no non-fatal error was emitted; the run_test exception ladder never turns a raised exception into a pass (all 16 classes x all mark combinations); exit code 0 implies no failed/errored phase and no non-fatal error. Tied to /repo by forced-schedule runs of the real engine compared step by step with the LTS, by provoking every ladder arm on the real run_test, and by in-process CLI runs whose exit code is compared with the model and with an oracle.",
   note="Trusted: Coq kernel+vm_compute; hand-written models Model_C11.v/Model_C05.v; the forced-schedule controller and guarded hooks; atomicity of queue/Event operations. Partial: stateful executor, report handlers and exceptions raised by the operation iterator itself are outside the model (one recorded finding there)."),
 "C09": dict(cat="proof", ref="DESIGN.md section 7 C09",
   text="Coq theorems (closed under the global context) over all strings/requests: shlex.quote then POSIX word splitting is the identity; the generated command splits into exactly the intended argv; curl given that argv re-sends the visible request, outside two refuted regions (blank header value, body starting with @) that are recorded findings. The model is tied to /repo on every run by differential correspondence against curl.generate, real dash and real curl; an end-to-end oracle searches for failing inputs.",
   note="Trusted: Coq kernel + vm_compute; hand-written model (Model_C09.v); harness encoders/parsers; dash and curl 7.88 as reference for foreign semantics (validated per run). Partial: URL globbing/dot-segment normalisation by curl and non-ASCII URLs are outside the model (requests never emits them)."),
 "C11": dict(cat="proof", ref="DESIGN.md section 7 C11, section 9",
   text="Theorems over an LTS of the unit phase (consumer, n workers, queue, stop flag, failure limit) quantified over every schedule, every behaviour, every configuration and every stop point: a closing event never precedes its opening one; when the consumer leaves without a stop request or limit every announced scenario is closed; the plan level emits one start, one finish last, phases opened and closed once in order. The full statement is refuted for max_failures with >= 2 workers (recorded finding) and for the code before the drain fix (regression witness). Tied to /repo by forcing thread schedules on the real engine through guarded hooks and comparing program points and emitted events step by step with the LTS, plus a reference automaton on complete streams of free multi-phase runs.",
   note="Trusted: Coq kernel+vm_compute; hand-written LTS Model_C11.v; atomic-step assumption for queue.Queue/threading.Event; forced-schedule controller + hooks; behaviour discovery on the real engine. Partial: stateful and probing phases are covered by the plan-level theorem and the stream oracle only."),
 "C12": dict(cat="proof", ref="DESIGN.md section 7 C12, section 9",
   text="Theorems over the same LTS for all schedules/behaviours/worker counts: after a stop request (or the failure limit) at most one further request per worker is sent; no more than max_failures failed or errored scenarios are reported (m >= 1); once the limit is reached later phases are only opened and closed as skipped with the reason. Both bounds are shown to be attained. Tied to /repo by forced schedules (Stop labels, max_failures) compared step by step, and free-run oracles for max_examples, max_failures, stop, unique inputs, stateful step count and rate limit.",
   note="Trusted: as C11. Partial: max_examples / stateful_step_count (Hypothesis), rate-limit windows (pyrate-limiter) and runtime jitter are foreign code, only exercised by the free-run oracle; unique-inputs under several workers is checked for one worker only."),
 "C04": dict(cat="proof", ref="DESIGN.md section 7 C04; notes/C04.md",
   text="Coq theorems (closed under the global context) over all response documents of the modelled fragment (string/integer keys with any wildcards, default, inline/referenced responses, any number of media types, headers, 2.0 produces) and all responses, for every validity judge: status verdict iff no key instance equals the code; content-type verdict iff no documented type matches; the four checks report a failure exactly when the documentation (exact -> NXX -> default lookup, full reference resolution, schema of the matching media type) says the response deviates, and never raise, inside eight executable regions; outside each region a machine-checked witness replayed on the implementation each run (8 recorded findings). Tied to /repo on every run by differential correspondence of the four real check functions, media_types.parse and expand_status_code on real OpenApi30/SwaggerV20 objects; an independent oracle (own lookup + python-jsonschema) is compared with the implementation and with the Coq specification.",
   note="Trusted: Coq kernel + vm_compute; hand-written Model_C04.v; harness encoders/oracle; python-jsonschema as the judge of validity. JSON-Schema validity, the OpenAPI->JSON Schema converter and header value coercion are function arguments of the model. OpenAPI 3.1, formats, remote references, non-ASCII names are outside the fragment. Partial: eight refuted regions."),
 "C06": dict(cat="proof", ref="DESIGN.md section 7 C06; notes/C06.md",
   text="Coq theorems for all code-point strings / values / parameter definitions: percent-encoding with UTF-8 round-trips (decoder rejects overlong forms and surrogates); for each of the 14 serializers a standards-conforming decoder recovers the value on the executable region (right shape, no style delimiter inside an item, non-empty, standard wire form), with machine-checked counterexamples outside it (8 recorded findings, incl. space sent as + in a path, [''] sent as [], label 0/False dropped, matrix without explode, cookie explode, OpenAPI style/explode defaults not applied, path delimiters percent-encoded); dispatch equals the OpenAPI 3 style table on 972 definition shapes when keywords are explicit; header precedence and provenance. Tied to /repo per run by correspondence with serialization.py, quote_all, prepare_path/url/headers and the real parameter strategy chain; an oracle sends real cases to a loopback server (requests and WSGI transports) and decodes them independently.",
   note="Trusted: Coq kernel + vm_compute; hand-written Model_C06.v; harness decoders. Partial: coverage-phase serialization, urlencoded/multipart/XML bodies, ASGI, GraphQL URLs not covered; requests' own encoding is tested, not proved."),
 "C15": dict(cat="proof", ref="DESIGN.md section 7 C15; notes/C15.md",
   text="Coq theorems over all configurations, JSON trees and URLs: after sanitize_value no sensitive key at any depth keeps a non-marker value; the output is a function of the public projection (noninterference) and nothing outside sensitive positions changes; extend/configure change exactly the classified set; sanitize_url replaces every userinfo and every value of a sensitive query name; per-channel noninterference for the VCR entry and HAR entry (full) and for cassette file, curl sample, JUnit message and console under executable region predicates, with four refuted regions proved by witness and recorded as findings; sanitization off is the identity. Tied to /repo per run by correspondence with sanitize_value, SanitizationConfig, sanitize_url, prepare_request, vcr_writer, har_writer, and by canary searches through real `st run` invocations (junit, vcr, har, console).",
   note="Trusted: Coq kernel+vm_compute; hand-written Model_C15.v; harness encoders/stubs; urllib/requests/PyYAML as foreign functions. Partial: ASCII names only; bodies/path/fragment/failure text treated as non-secret per the property text; console text outside failure section and loading lines covered by the canary grep only."),
 "C18": dict(cat="proof", ref="DESIGN.md section 7 C18; notes/C18.md",
   text="Coq theorems over all scenario histories (forests of recorded cases): find_related yields every other node of the tree exactly once for roots and leaves (refuted for inner nodes); the path-prefix heuristic is exact outside the trailing-s region and always lenient; use_after_free and ensure_resource_availability report exactly / only when the property text says so under executable region hypotheses, with machine-checked counterexamples outside them (6 recorded findings: the DELETE's parent response is read instead of the DELETE's, rstrip('s'), subtree skipped, 3xx creation window, override of explicit containers). Tied to /repo per run by evaluating the same definitions against real ScenarioRecorder / Case / CheckContext objects and the real checks on thousands of histories (exhaustive up to 4 nodes in the thorough tier), plus a reference-predicate oracle.",
   note="Trusted: Coq kernel+vm_compute; hand-written Model_C18.v; harness history builder. Partial: theorems assume the checked case is the last recorded one (as the engine calls them); header/cookie containers of _override, schema-type guards and message texts are not modelled."),
 "C19": dict(cat="proof", ref="DESIGN.md section 7 C19; notes/C19.md",
   text="Coq theorems over all registration histories: a heap model of to_filterable_hook (closures, decorators, function attributes sharing FilterSet objects) refines a value-semantics specification in which every hook carries exactly the filters chained in its own registration expression, for both decorator forms; unfiltered hooks apply everywhere; unregistration removes exactly that hook; all scopes are applied in order; auth providers carry their own filters. The pre-fix behaviour is kept as a second model with a refutation witness (regression sentinel). Four further findings (case-level hooks ignore filters, filter_used leak, rejected registration keeps its filters, one filter set per function object) are refuted by witness and recorded. Tied to /repo per run by executing generated histories on real HookDispatcher / AuthStorage objects and by real data generation with hooks at several scopes.",
   note="Trusted: Coq kernel+vm_compute; hand-written Model_C19.v; regex and user predicates are opaque truth tables. Not covered: stale saved proxies, caching auth providers, GraphQL call sites, pytest/CLI hook loading, thread safety of registration."),
 "C03": dict(cat="proof", ref="DESIGN.md section 7 C03; notes/C03.md",
   text="Coq theorems over all integer schemas / key orders / operation shapes: every non-authored value of the positive numeric boundary plan is valid and every numeric negative violates its keyword outside executable regions, with machine-checked counterexamples inside them (7 recorded findings: maximum 0 treated as absent, boolean exclusive bounds used as numbers, unsatisfiable ranges, numeric exclusive bound overriding a stricter inclusive one, body cases after the first inheriting the first value's label, a negative first value ending up in the positive template, anyOf/oneOf siblings not consulted); requested string lengths and array sizes lie inside the declared range for satisfiable ranges; the case-level label is negative iff a part is negative or the case is a method/duplicate/missing-required case, except for body tails (exact shape of that defect proved). Tied to /repo per run by exact comparison of cover_schema_iter value lists, the generate_from_schema requests of the string/array planners, and kind/mode/components/content of every case yielded by _iter_coverage_cases; a python-jsonschema oracle validates every yielded value against its label.",
   note="Trusted: Coq kernel+vm_compute; hand-written Model_C03.v; python-jsonschema as judge. Partial: floats, objects, enum/const/pattern/format negatives, allOf have no theorem (oracle only); the serialisation of coverage cases is not modelled."),
 "C07": dict(cat="proof", ref="DESIGN.md section 7 C07; notes/C07.md",
   text="Coq theorems over all filter sets and all documents of the fragment: FilterSet.match is exactly (no include or some include matches) and no exclude matches, independent of set order; get_all_operations offers exactly the lower-case-method entries whose resolved definition matches, once, in document order; non-method keys are never operations and do not influence any count; the statistic equals what is offered when filters do not depend on reference resolution (refuted otherwise: statistics are evaluated on the raw definition); every state-machine transition starts and ends at a selected operation; duplicate-filter rejection, method case-insensitivity, CLI option translation. Four recorded findings (statistic on raw definitions, duplicated operationId links, lazy fixtures dropping the fixture's filters, operationRef to a non-method key). Tied to /repo per run through real schema objects (include/exclude, statistic, get_all_operations, as_state_machine), a real pytest session for lazy fixtures and engine runs counting requests per operation at a loopback API.",
   note="Trusted: Coq kernel+vm_compute; hand-written Model_C07.v; the schema's own reference resolver supplies (raw, resolved) pairs. Not covered: GraphQL (C20), Err results of get_all_operations, compiled regex arguments, concurrency of the shared filter context cache."),
 "C17": dict(cat="proof", ref="DESIGN.md section 7 C17; notes/C17.md",
   text="Coq theorems over all example lists and schema fragments: every example occurs unchanged in some produced combination, nothing is invented, the number of combinations is the largest per-parameter example count, no examples means no cases, explicit values are never overwritten by generated fill-ins and required inputs are filled (generator as a function argument with its contract), branch- and self-level examples are extracted; dropping of examples is reported outside the refuted region (InvalidSchema / reference errors are swallowed silently). Six recorded findings with witnesses (silent drop, OpenAPI 2.0 allOf x-examples, nested composition, properties under composition, lookup by name only, path examples not percent-encoded). Tied to /repo per run by exact comparison on produce_combinations, _expand_subschemas, extract_from_schema, extract_top_level, extract_inner_examples, get_parameters_value and add_examples, and by an oracle that plants examples at every placement in generated documents and watches an examples-only engine run at a loopback API.",
   note="Trusted: Coq kernel+vm_compute; hand-written Model_C17.v; hypothesis-jsonschema generator as contract. Not covered: response-derived examples, externalValue, form/multipart bodies, overrides and hooks."),
}

NOT_YET = {
}

def main():
    props = [json.loads(l) for l in (VERIF / "properties.jsonl").read_text().splitlines() if l.strip()]
    ids = [p["id"] for p in props]
    checks = []
    for pid in ids:
        if pid not in CHECKS:
            continue
        c = CHECKS[pid]
        checks.append({
            "property_id": pid,
            "quick_cmd": f"./check {pid} --tier quick",
            "thorough_cmd": f"./check {pid} --tier thorough",
            "evidence_file": f"/verif/evidence/{pid}.json",
            "replay_cmd_template": f"./check {pid} --replay {{path}}",
            "engine": "coq-model-check",
            "level_claimed": {"category": c["cat"], "text": c["text"], "design_ref": c["ref"]},
            "level_note": c["note"],
            "technique": c.get("technique", TECH),
        })
    na = [{"property_id": pid, "reason": NOT_YET.get(pid, "check under construction in this session (model and theorems not yet integrated); not claimed yet")}
          for pid in ids if pid not in CHECKS]
    hooks_commits = subprocess.run(["git", "-C", "/repo", "log", "--format=%h %s", "--grep=verif hooks"], capture_output=True, text=True).stdout.strip().splitlines()
    m = {
        "version": 1,
        "setup_cmd": "cd /verif && PYTHONPATH=/verif /venv/bin/python -m harness.setup",
        "hooks": {
            "guard": "SCHEMATHESIS_VERIF",
            "enable": "export SCHEMATHESIS_VERIF=1 before importing schemathesis (done by /verif/check); checks import schemathesis from /repo/src via PYTHONPATH; the harness then installs a controller with schemathesis.core._verif.set_controller",
            "baseline_off_cmd": "cd /repo && env -u SCHEMATHESIS_VERIF /venv/bin/python -m pytest -ra -q -p no:cacheprovider --timeout=900 --continue-on-collection-errors --junitxml=/tmp/baseline.junit.xml",
            "source_commits": [h.split()[0] for h in hooks_commits],
            "add_only": True,
        },
        "engines": [{"name": "coq-model-check", "path": "/verif/check", "serves_properties": [c["property_id"] for c in checks],
                     "kind_free_text": "Coq 8.16.1 theorems about a Gallina model + per-run correspondence (vm_compute in coqc vs /repo/src) + oracle search; ./check Cxx [--tier quick|thorough] [--replay F]"}],
        "checks": checks,
        "not_applicable": na,
        "notes": "See DESIGN.md (section 9 for what changed while building). known_findings.jsonl lists recorded and fixed findings.",
    }
    (VERIF / "MANIFEST.json").write_text(json.dumps(m, indent=1) + "\n")
    print(f"{len(checks)} checks, {len(na)} not claimed")

main()
