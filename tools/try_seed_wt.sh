#!/bin/bash
# usage: try_seed.sh <seed_worktree> <PROP> <name>
# 1. confirms the demonstration (fails with the patch, passes without) in the agent's scratch worktree,
# 2. copies patch/demo/meta to /verif/seeded/<name>/, 3. applies the patch to /repo, runs ./check PROP (quick), undoes it.
wt=$1; prop=$2; name=$3
out=/verif/seeded/$name
mkdir -p $out
cp $wt/seed_out/patch.diff $wt/seed_out/demo.py $out/ 2>/dev/null
cp $wt/seed_out/meta.json $out/meta.agent.json 2>/dev/null
cd $wt
git apply -R seed_out/patch.diff || { echo "cannot reverse patch in worktree"; exit 2; }
PYTHONPATH=$wt/src timeout 600 /venv/bin/python seed_out/demo.py > $out/demo_without.log 2>&1; rc0=$?
git apply seed_out/patch.diff
PYTHONPATH=$wt/src timeout 600 /venv/bin/python seed_out/demo.py > $out/demo_with.log 2>&1; rc1=$?
echo "demo without patch: rc=$rc0 ; with patch: rc=$rc1"
cd /verif


VERIF_REPO=$wt ./check $prop > $out/check_with_patch.log 2>&1; rcc=$?
/verif/tools/regen_from_repo.sh > /dev/null


echo "check $prop with patch: rc=$rcc"
grep -E "VIOLATION|^\[|broken:|failing input" $out/check_with_patch.log | head -8
echo "{\"demo_rc_without_patch\": $rc0, \"demo_rc_with_patch\": $rc1, \"check\": \"./check $prop\", \"check_rc_with_patch\": $rcc}" > $out/result.json
