#!/bin/bash
# Runs every claimed check (quick tier by default) on the current tree, N at a time; prints one line per check.
tier=${1:-quick}; par=${2:-3}; seed=${3:-0}
cd "$(dirname "$0")/.."
props=$(/venv/bin/python -c "import json;print(' '.join(c['property_id'] for c in json.load(open('MANIFEST.json'))['checks']))")
mkdir -p .scratch/full
printf '%s\n' $props | xargs -P $par -I{} sh -c "VERIF_SEED=$seed ./check {} --tier $tier > .scratch/full/{}.log 2>&1; echo {} rc=\$? \$(grep -E '^\[' .scratch/full/{}.log | cut -c1-150)"
