#!/usr/bin/env python3
"""usage: seed_prompt.py <PROP> <suffix> : creates the scratch worktree /tmp/seed_<PROP>_<suffix> of /repo and prints the brief
given to a fresh sub-agent (property text only - nothing from /verif except the one-line summaries of seeds that already exist,
so that the new change is a different one)."""
import json, subprocess, sys
from pathlib import Path

prop, suffix = sys.argv[1:3]
wt = f"/tmp/seed_{prop}_{suffix}"
if not Path(wt).exists():
    subprocess.run(["git", "-C", "/repo", "worktree", "add", "--detach", wt, "HEAD"], check=True, capture_output=True)
p = json.loads(Path(f"/verif/notes/prop_{prop}.json").read_text())
used = []
for d in sorted(Path("/verif/seeded").glob(f"{prop}_*")):
    m = d / "meta.json"
    if m.exists():
        s = json.loads(m.read_text()).get("summary") or ""
        used.append("- " + s[:260].replace("\n", " "))
text = {k: p[k] for k in ("title", "statement")}
text["quantifier"] = p["quantifier"]["text"]
text["why_tests_cant"] = p.get("why_tests_cant")
text["anchors"] = {"files": p["anchors"]["files"], "mechanism": p["anchors"].get("mechanism")}
print(f"""You are helping to evaluate a verification tool by writing one realistic regression (a "seeded bug") for the open-source
Python project schemathesis.  Work ONLY inside your own scratch git worktree {wt} (already created: a checkout of the project,
source under {wt}/src/schemathesis, tests under {wt}/test).  Do not read or write anything under /verif or /repo.  Use
`/venv/bin/python` with `PYTHONPATH={wt}/src` for everything; there is no network and nothing can be installed.

The property the project is supposed to satisfy:

{json.dumps(text, indent=1)}

Task: make ONE small, plausible-looking source change in {wt}/src/schemathesis - the kind a maintainer could make during a
refactoring, an optimisation or a "simplification", not obvious sabotage - that BREAKS this property, such that
(a) the package still imports and the existing tests that exercise the touched code still pass exactly as before (run the relevant
    test files with `PYTHONPATH={wt}/src /venv/bin/python -m pytest -p no:cacheprovider -q <files>` before and after your change;
    tests that fail identically on the unchanged code do not count against you; the complete suite takes 11 minutes, so pick the
    relevant directories);
(b) the breakage needs something specific to manifest - a particular thread interleaving, a crash or fault at a particular point, a
    multi-step sequence of operations, an unusual input, or two cooperating sites that each look fine alone - NOT something any
    ordinary run would expose at once.
Changes that already exist (write a DIFFERENT one, in a different function if you can):
{chr(10).join(used) if used else "- (none)"}

Deliverables, in {wt}/seed_out/ :
* patch.diff - `cd {wt} && git diff -- src > seed_out/patch.diff` (source change only; it must apply to a clean checkout with `git apply`);
* demo.py - a self-contained script, run as `PYTHONPATH={wt}/src /venv/bin/python seed_out/demo.py`, that exits 0 on the unchanged
  code and exits 1 (printing what went wrong) with your change applied.  It must demonstrate a violation of the property AS STATED,
  through observable behaviour of the library, not by inspecting source text.  Under 2 minutes.  If it needs an API to talk to, start a
  loopback server thread inside the script (werkzeug / http.server);
* meta.json - {{"summary": "<what was changed and why it breaks the property>", "needs": "<what it needs in order to manifest>",
  "files": ["<touched files>"], "tests_run": "<the pytest commands you ran and their results before/after>"}}.
Leave the change applied in the worktree when you finish.  Verify both directions yourself (`git apply -R seed_out/patch.diff`, run
demo.py -> exit 0; `git apply seed_out/patch.diff`, run demo.py -> exit 1).  Do not commit.  Your final message: five lines on
what you changed and how it manifests.""")
